#!/bin/bash
# Regenerates /verif/harness/go.mod + go.sum from /repo/go.mod (replace directives are not inherited
# from a dependency, so they are copied), pointing the canine-chain module at /repo's working tree.
set -e
export GOFLAGS=-mod=mod GOPROXY=off GOSUMDB=off GOTOOLCHAIN=local
REPO=${VERIF_REPO:-/repo}
H=${VERIF_DIR:-/verif}/harness
tmp=$(mktemp)
sed -e 's#^module .*#module verif/harness#' "$REPO/go.mod" > "$tmp"
cat >> "$tmp" <<EOT

require github.com/jackalLabs/canine-chain/v4 v4.0.0
replace github.com/jackalLabs/canine-chain/v4 => $REPO
EOT
if ! cmp -s "$tmp" "$H/go.mod"; then cp "$tmp" "$H/go.mod"; fi
rm -f "$tmp"
if ! cmp -s "$REPO/go.sum" "$H/go.sum"; then cp "$REPO/go.sum" "$H/go.sum"; fi
