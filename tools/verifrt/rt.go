// Package verifrt is injected into the canine-chain module by `go build -overlay` (it does not exist in /repo).
// It turns the sources of nondeterminism found by seamgen into choice points owned by the explorer.
package verifrt

import (
	"fmt"
	"runtime"
	"sort"
	"time"
	_ "time/tzdata" // the zone choice must not depend on the host's zoneinfo files

	tmrand "github.com/tendermint/tendermint/libs/rand"
)

type Point struct {
	Site  string
	Arity int
}

var (
	mapChoices []int // answer for the i-th map-range choice point of this execution (default 0)
	points     []Point
	clock      int
	rng        int
	nowCalls   int64
	rngCalls   int64
)

// the two wall-clock bases lie on either side of every time a history of the harness can contain (block times start
// in 2026; plans, gauges and names end within a few years to a century of that)
var t0 = time.Date(2001, 3, 4, 5, 6, 7, 0, time.UTC)
var t1 = time.Date(2231, 3, 4, 5, 6, 7, 678000000, time.UTC)

// Reset starts an execution: clock and rng are the two global choices, mapChoices answers map-range points in order.
func Reset(clockChoice, rngChoice int, maps []int) {
	clock, rng, mapChoices = clockChoice, rngChoice, maps
	points = nil
	nowCalls, rngCalls = 0, 0
}

var zones = func() []*time.Location {
	ny, err := time.LoadLocation("America/New_York") // a zone with daylight saving time
	if err != nil {
		panic(err)
	}
	return []*time.Location{time.UTC, ny}
}()

// SetZone chooses the host's local time zone for this execution (0 = UTC, 1 = America/New_York).
func SetZone(z int) { time.Local = zones[z%len(zones)] }

// Points returns the map-range choice points reached since Reset.
func Points() []Point { return points }

func fact(n int) int {
	f := 1
	for i := 2; i <= n; i++ {
		f *= i
	}
	return f
}

// Keys returns the keys of m in an order chosen by the explorer: choice 0 is sorted order; for n <= 4 every
// permutation is a choice, above that three alternatives (rotation by one, rotation by n/2, reversal).
func Keys[K comparable, V any](m map[K]V) []K {
	keys := make([]K, 0, len(m))
	for k := range m {
		keys = append(keys, k)
	}
	sort.Slice(keys, func(i, j int) bool { return fmt.Sprint(keys[i]) < fmt.Sprint(keys[j]) })
	n := len(keys)
	if n <= 1 {
		return keys
	}
	arity := 4 // sorted, rotated by one, rotated by n/2, reversed
	if n <= 4 {
		arity = fact(n)
	}
	_, file, line, _ := runtime.Caller(1)
	idx := len(points)
	points = append(points, Point{Site: fmt.Sprintf("%s:%d", file, line), Arity: arity})
	c := 0
	if idx < len(mapChoices) {
		c = mapChoices[idx] % arity
	}
	if c == 0 {
		return keys
	}
	out := make([]K, 0, n)
	if n <= 4 { // c-th permutation in lexicographic order (factorial number system)
		rest := append([]K{}, keys...)
		for i := n; i >= 1; i-- {
			f := fact(i - 1)
			j := c / f
			c %= f
			out = append(out, rest[j])
			rest = append(rest[:j], rest[j+1:]...)
		}
		return out
	}
	rot := map[int]int{1: 1, 2: n / 2, 3: 0}[c]
	for i := 0; i < n; i++ {
		out = append(out, keys[(i+rot)%n])
	}
	if c == 3 {
		for i, j := 0, n-1; i < j; i, j = i+1, j-1 {
			out[i], out[j] = out[j], out[i]
		}
	}
	return out
}

// Now is the wall clock of this execution: two different bases, always advancing.
func Now() time.Time {
	nowCalls++
	base := t0
	if clock == 1 {
		base = t1
	}
	return base.Add(time.Duration(nowCalls) * 1733 * time.Microsecond)
}

// Since and Until replace time.Since and time.Until.
func Since(t time.Time) time.Duration { return Now().Sub(t) }
func Until(t time.Time) time.Duration { return t.Sub(Now()) }

// NewTMRand returns a generator whose initial seed is an explorer choice; code that re-seeds it is unaffected.
func NewTMRand() *tmrand.Rand {
	rngCalls++
	r := tmrand.NewRand()
	seed := int64(1000003)
	if rng == 1 {
		seed = 7777777
	}
	r.Seed(seed + rngCalls)
	return r
}
