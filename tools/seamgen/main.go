// seamgen inventories every source of nondeterminism in the custom packages of /repo (range over a map, time.Now,
// math/rand, crypto/rand, tendermint libs/rand, go statements, select) and generates rewritten copies plus a
// `go build -overlay` JSON in which map ranges iterate verifrt.Keys(m) (order chosen by the explorer), time.Now()
// becomes verifrt.Now() (time.Since/time.Until likewise) and rand.NewRand() becomes verifrt.NewTMRand(). /repo itself is not modified.
package main

import (
	"bytes"
	"encoding/json"
	"fmt"
	"go/ast"
	"go/format"
	"go/token"
	"go/types"
	"os"
	"path/filepath"
	"sort"
	"strings"

	"golang.org/x/tools/go/packages"
)

type Site struct {
	Kind string `json:"kind"`
	Pos  string `json:"pos"`
	Note string `json:"note,omitempty"`
}

const modPath = "github.com/jackalLabs/canine-chain/v4"

func main() {
	repo, outDir := os.Args[1], os.Args[2]
	_ = os.MkdirAll(filepath.Join(outDir, "src"), 0o755)
	cfg := &packages.Config{Mode: packages.NeedName | packages.NeedFiles | packages.NeedSyntax | packages.NeedTypes | packages.NeedTypesInfo | packages.NeedImports | packages.NeedCompiledGoFiles,
		Dir: repo, Env: append(os.Environ(), "GOFLAGS=-mod=mod", "GOPROXY=off", "GOSUMDB=off")}
	pkgs, err := packages.Load(cfg, "./x/...", "./app/...", "./wasmbinding/...", "./types/...")
	if err != nil {
		fmt.Fprintln(os.Stderr, "seamgen: load:", err)
		os.Exit(2)
	}
	var sites []Site
	overlay := map[string]string{}
	bad := 0
	for _, p := range pkgs {
		for _, e := range p.Errors {
			fmt.Fprintln(os.Stderr, "seamgen: package error:", e)
			bad++
		}
		for i, f := range p.Syntax {
			fn := p.CompiledGoFiles[i]
			if strings.HasSuffix(fn, "_test.go") || strings.HasSuffix(fn, ".pb.go") || strings.HasSuffix(fn, ".pb.gw.go") {
				continue
			}
			changed := false
			needImport := false
			rel, _ := filepath.Rel(repo, fn)
			ast.Inspect(f, func(n ast.Node) bool {
				switch x := n.(type) {
				case *ast.GoStmt:
					sites = append(sites, Site{"go-statement", p.Fset.Position(x.Pos()).String(), ""})
				case *ast.SelectStmt:
					sites = append(sites, Site{"select", p.Fset.Position(x.Pos()).String(), ""})
				case *ast.RangeStmt:
					tv, ok := p.TypesInfo.Types[x.X]
					if !ok {
						return true
					}
					if _, isMap := tv.Type.Underlying().(*types.Map); !isMap {
						return true
					}
					sites = append(sites, Site{"map-range", p.Fset.Position(x.Pos()).String(), types.ExprString(x.X)})
					if !rewriteRange(x) {
						fmt.Fprintf(os.Stderr, "seamgen: cannot rewrite map range at %s\n", p.Fset.Position(x.Pos()))
						bad++
						return true
					}
					changed, needImport = true, true
				case *ast.CallExpr:
					sel, ok := x.Fun.(*ast.SelectorExpr)
					if !ok {
						return true
					}
					id, ok := sel.X.(*ast.Ident)
					if !ok {
						return true
					}
					pn, ok := p.TypesInfo.Uses[id].(*types.PkgName)
					if !ok {
						return true
					}
					path := pn.Imported().Path()
					switch {
					case path == "time" && sel.Sel.Name == "Now":
						sites = append(sites, Site{"time.Now", p.Fset.Position(x.Pos()).String(), ""})
						x.Fun = &ast.SelectorExpr{X: ast.NewIdent("verifrt"), Sel: ast.NewIdent("Now")}
						changed, needImport = true, true
					case path == "time" && (sel.Sel.Name == "Since" || sel.Sel.Name == "Until"):
						// time.Since(t) / time.Until(t) read the wall clock too
						sites = append(sites, Site{"time." + sel.Sel.Name, p.Fset.Position(x.Pos()).String(), ""})
						x.Fun = &ast.SelectorExpr{X: ast.NewIdent("verifrt"), Sel: ast.NewIdent(sel.Sel.Name)}
						changed, needImport = true, true
					case strings.HasSuffix(path, "tendermint/libs/rand") && sel.Sel.Name == "NewRand":
						sites = append(sites, Site{"tmrand.NewRand", p.Fset.Position(x.Pos()).String(), ""})
						x.Fun = &ast.SelectorExpr{X: ast.NewIdent("verifrt"), Sel: ast.NewIdent("NewTMRand")}
						changed, needImport = true, true
					case strings.HasSuffix(path, "tendermint/libs/rand"):
						sites = append(sites, Site{"tmrand." + sel.Sel.Name, p.Fset.Position(x.Pos()).String(), "global generator"})
					case path == "math/rand" || path == "crypto/rand" || path == "math/rand/v2":
						sites = append(sites, Site{path + "." + sel.Sel.Name, p.Fset.Position(x.Pos()).String(), "not rewritten"})
					}
				}
				return true
			})
			if !changed {
				continue
			}
			if needImport {
				addImport(f, modPath+"/verifrt")
			}
			var buf bytes.Buffer
			if err := format.Node(&buf, p.Fset, f); err != nil {
				fmt.Fprintln(os.Stderr, "seamgen: print:", err)
				bad++
				continue
			}
			// unused imports after rewriting (e.g. tendermint rand only used for NewRand) are kept alive
			src := buf.String()
			src = keepImportsAlive(f, src)
			dst := filepath.Join(outDir, "src", strings.ReplaceAll(rel, "/", "__"))
			if err := os.WriteFile(dst, []byte(src), 0o644); err != nil {
				panic(err)
			}
			overlay[fn] = dst
		}
	}
	sort.Slice(sites, func(i, j int) bool { return sites[i].Pos < sites[j].Pos })
	rt, _ := filepath.Abs(filepath.Join(filepath.Dir(os.Args[0]), "..", "tools", "verifrt", "rt.go"))
	if len(os.Args) > 3 {
		rt = os.Args[3]
	}
	overlay[filepath.Join(repo, "verifrt", "rt.go")] = rt
	ov, _ := json.MarshalIndent(map[string]interface{}{"Replace": overlay}, "", " ")
	_ = os.WriteFile(filepath.Join(outDir, "overlay.json"), ov, 0o644)
	inv, _ := json.MarshalIndent(sites, "", " ")
	_ = os.WriteFile(filepath.Join(outDir, "inventory.json"), inv, 0o644)
	fmt.Printf("seamgen: %d sites, %d files rewritten\n", len(sites), len(overlay)-1)
	if bad > 0 {
		os.Exit(2)
	}
}

// rewriteRange turns `for k, v := range m {B}` into `for _, k := range verifrt.Keys(m) { v := m[k]; B }`.
func rewriteRange(x *ast.RangeStmt) bool {
	m := x.X
	keyIdent := func(e ast.Expr) (*ast.Ident, bool) {
		if e == nil {
			return nil, true
		}
		id, ok := e.(*ast.Ident)
		return id, ok
	}
	k, ok1 := keyIdent(x.Key)
	v, ok2 := keyIdent(x.Value)
	if !ok1 || !ok2 {
		return false
	}
	kname := "verifrtKey"
	if k != nil && k.Name != "_" {
		kname = k.Name
	}
	var pre []ast.Stmt
	if v != nil && v.Name != "_" {
		pre = append(pre, &ast.AssignStmt{Lhs: []ast.Expr{ast.NewIdent(v.Name)}, Tok: x.Tok, Rhs: []ast.Expr{&ast.IndexExpr{X: m, Index: ast.NewIdent(kname)}}})
		if x.Tok == token.DEFINE {
			pre = append(pre, &ast.AssignStmt{Lhs: []ast.Expr{ast.NewIdent("_")}, Tok: token.ASSIGN, Rhs: []ast.Expr{ast.NewIdent(v.Name)}})
		}
	}
	if k == nil && v == nil { // for range m
		// nothing to rename
	} else {
		x.Key = ast.NewIdent("_")
		x.Value = ast.NewIdent(kname)
		if x.Tok != token.DEFINE && (k == nil || k.Name == "_") {
			x.Tok = token.DEFINE
		}
	}
	x.X = &ast.CallExpr{Fun: &ast.SelectorExpr{X: ast.NewIdent("verifrt"), Sel: ast.NewIdent("Keys")}, Args: []ast.Expr{m}}
	x.Body.List = append(pre, x.Body.List...)
	return true
}

func addImport(f *ast.File, path string) {
	for _, im := range f.Imports {
		if strings.Trim(im.Path.Value, `"`) == path {
			return
		}
	}
	spec := &ast.ImportSpec{Path: &ast.BasicLit{Kind: token.STRING, Value: `"` + path + `"`}}
	for _, d := range f.Decls {
		if gd, ok := d.(*ast.GenDecl); ok && gd.Tok == token.IMPORT {
			gd.Specs = append(gd.Specs, spec)
			f.Imports = append(f.Imports, spec)
			return
		}
	}
	gd := &ast.GenDecl{Tok: token.IMPORT, Specs: []ast.Spec{spec}}
	f.Decls = append([]ast.Decl{gd}, f.Decls...)
}

// keepImportsAlive appends blank uses for imports that the rewrite may have orphaned.
func keepImportsAlive(f *ast.File, src string) string {
	var extra []string
	for _, im := range f.Imports {
		p := strings.Trim(im.Path.Value, `"`)
		name := ""
		if im.Name != nil {
			name = im.Name.Name
		}
		switch {
		case p == "time":
			if name == "" {
				name = "time"
			}
			extra = append(extra, "var _ = "+name+".Second")
		case strings.HasSuffix(p, "tendermint/libs/rand"):
			if name == "" {
				name = "rand"
			}
			extra = append(extra, "var _ = "+name+".Seed")
		}
	}
	if len(extra) == 0 {
		return src
	}
	return src + "\n" + strings.Join(extra, "\n") + "\n"
}
