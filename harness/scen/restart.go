package scen

import (
	"fmt"

	sdk "github.com/cosmos/cosmos-sdk/types"

	"github.com/jackalLabs/canine-chain/v4/x/notifications"
	notiftypes "github.com/jackalLabs/canine-chain/v4/x/notifications/types"
	"github.com/jackalLabs/canine-chain/v4/x/storage"
	storagetypes "github.com/jackalLabs/canine-chain/v4/x/storage/types"

	"verif/harness/world"
)

// restartModule carries one module through what a chain restart from an exported genesis does to it: the module's
// genesis is exported, passed through JSON, validated, the module's store is emptied and the genesis imported.
// The same steps run at both seams (on the block's own state). A failure is returned, a panic is turned into one.
func restartModule(env world.Env, module string) (err error) {
	w := env.W()
	cdc := w.Cdc()
	env.Mutate(func(ctx sdk.Context) {
		defer func() {
			if r := recover(); r != nil {
				err = fmt.Errorf("panic: %v", r)
			}
		}()
		switch module {
		case "storage":
			bz := cdc.MustMarshalJSON(storage.ExportGenesis(ctx, w.App.StorageKeeper))
			var g storagetypes.GenesisState
			if err = cdc.UnmarshalJSON(bz, &g); err != nil {
				return
			}
			if err = g.Validate(); err != nil {
				return
			}
			w.ClearStore(ctx, "storage")
			storage.InitGenesis(ctx, w.App.StorageKeeper, g)
		case "notifications":
			bz := cdc.MustMarshalJSON(notifications.ExportGenesis(ctx, w.App.NotificationsKeeper))
			var g notiftypes.GenesisState
			if err = cdc.UnmarshalJSON(bz, &g); err != nil {
				return
			}
			if err = g.Validate(); err != nil {
				return
			}
			w.ClearStore(ctx, notiftypes.StoreKey)
			notifications.InitGenesis(ctx, w.App.NotificationsKeeper, g)
		default:
			panic("restartModule: " + module)
		}
	})
	return err
}
