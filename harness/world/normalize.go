package world

import (
	"bytes"

	storagetypes "github.com/jackalLabs/canine-chain/v4/x/storage/types"
)

// NormalizeKV removes the one field whose value legitimately differs between the handler seam and the ABCI seam:
// FileProof.ChunkToProve is seeded by the gas consumed in the block, which at seam B includes ante-handler and
// signature gas. Events are abstract ("prove the challenged chunk"), so nothing else depends on it.
func NormalizeKV(w *World, store string, kv KV) KV {
	if store == storagetypes.StoreKey && bytes.HasPrefix(kv.K, []byte(storagetypes.ProofKeyPrefix)) {
		var p storagetypes.FileProof
		if err := w.Cdc().Unmarshal(kv.V, &p); err == nil {
			p.ChunkToProve = 0
			kv.V = w.Cdc().MustMarshal(&p)
		}
	}
	return kv
}
