package scen

import (
	"fmt"
	"sort"
	"strings"
	"time"

	"github.com/cosmos/cosmos-sdk/codec"
	sdk "github.com/cosmos/cosmos-sdk/types"

	"github.com/jackalLabs/canine-chain/v4/app"
	rnstypes "github.com/jackalLabs/canine-chain/v4/x/rns/types"

	"verif/harness/mc"
	"verif/harness/world"
)

// RNS is the shared name-service scenario; Prop selects alphabet and oracle clauses (C08 ownership, C09 escrow).
type RNS struct {
	Prop string
}

const (
	rnsN1        = "alpha.jkl" // not registered at genesis
	rnsN2        = "exp.jkl"   // registered at genesis to A, expires at height rnsN2Expiry
	rnsN2Expiry  = int64(5)
	rnsMaxBlocks = 5
)

var rnsWho = []string{"A", "B", "C"}
var rnsNames = []string{rnsN1, rnsN2}

// rnsGen: the "free" names the Init message generates at heights 3 and 4, registered here as *paid* names of A
var rnsGen = []string{rnstypes.MakeName(3, 3) + ".jkl", rnstypes.MakeName(4, 4) + ".jkl"}

// rnsFree: the free names Init hands out at the other heights a history can reach (live and locked for their term)
var rnsFree = func() []string {
	var o []string
	for _, h := range []int64{1, 2, 5, 6, 7, 8} {
		o = append(o, rnstypes.MakeName(int(h), h)+".jkl")
	}
	return o
}()

func (s RNS) watched() []string {
	if s.Prop == "C08" {
		return append(append(append([]string{"alpha.ibc"}, rnsNames...), rnsGen...), rnsFree...)
	}
	return rnsNames
}

type rnsModel struct {
	Blocks int
	// C09: what each bidder has escrowed for a name since its last cancel/accept, per the statement
	Escrow map[string]string // "bidder|name" -> coins string
}

func (m rnsModel) Key() []byte { return jkey(m) }
func (m rnsModel) clone() rnsModel {
	n := rnsModel{Blocks: m.Blocks, Escrow: map[string]string{}}
	for k, v := range m.Escrow {
		n.Escrow[k] = v
	}
	return n
}

func (s RNS) ID() string   { return s.Prop }
func (s RNS) Name() string { return s.Prop + "/rns" }

// rnsBig: an amount above 2^63-1 of a denomination with many decimals (coin amounts are arbitrary-precision integers)
const rnsBig = "9223372036854775808ubig"

func (s RNS) Config() world.Config {
	big, _ := sdk.NewIntFromString("40000000000000000000")
	return world.Config{
		Accounts: []string{"A", "B", "C", "P"},
		// P cannot afford any name
		Balances: map[string]sdk.Coins{"A": world.DefaultBalance().Add(sdk.NewCoin("ubig", big)), "P": sdk.NewCoins(sdk.NewInt64Coin("ujkl", 3))},
		GenesisMod: func(cdc codec.JSONCodec, gs app.GenesisState) {
			var g rnstypes.GenesisState
			cdc.MustUnmarshalJSON(gs[rnstypes.ModuleName], &g)
			g.NamesList = append(g.NamesList, rnstypes.Names{
				Name: "exp", Tld: "jkl", Expires: rnsN2Expiry, Value: world.MakeAcct("A").Bech, Data: "{}", Subdomains: []*rnstypes.Names{},
			})
			if s.Prop == "C08" {
				for _, n := range rnsGen {
					g.NamesList = append(g.NamesList, rnstypes.Names{
						Name: strings.TrimSuffix(n, ".jkl"), Tld: "jkl", Expires: 50_000_000, Value: world.MakeAcct("A").Bech, Data: `{"paid":true}`, Subdomains: []*rnstypes.Names{},
					})
				}
			}
			gs[rnstypes.ModuleName] = cdc.MustMarshalJSON(&g)
		},
	}
}
func (s RNS) Stores() []string { return []string{"rns", "bank"} }
func (s RNS) Init(env world.Env) mc.Model {
	return rnsModel{Escrow: map[string]string{}}
}

func others(x string) []string {
	var o []string
	for _, y := range rnsWho {
		if y != x {
			o = append(o, y)
		}
	}
	return o
}

func (s RNS) Events(env world.Env, mm mc.Model) []string {
	m := mm.(rnsModel)
	var evs []string
	add := func(f string, a ...interface{}) { evs = append(evs, fmt.Sprintf(f, a...)) }
	for _, n := range rnsNames {
		for _, x := range rnsWho {
			add("Register:%s:%s", x, n)
		}
	}
	for _, n := range rnsNames {
		for _, x := range rnsWho {
			if s.Prop == "C08" {
				add("List:%s:%s:5ujkl", x, n)
				add("List:%s:%s:7ujkl", x, n)
				add("Delist:%s:%s", x, n)
			} else {
				add("List:%s:%s:5ujkl", x, n)
			}
			add("Buy:%s:%s", x, n)
			add("Bid:%s:%s:5ujkl", x, n)
			add("Bid:%s:%s:7ujkl", x, n)
			if s.Prop == "C08" && x == "B" {
				add("Bid:%s:%s:5uatom", x, n) // a bid in another denomination than registrations are paid in
			}
			if s.Prop == "C09" {
				add("Bid:%s:%s:0ujkl", x, n) // an offer of nothing (stateless validation lets it through)
				add("Bid:%s:%s:5uatom", x, n)
				add("BidFail:%s:%s:7ujkl", x, n) // one transaction: this bid, then a message that fails
				if x == "A" {
					add("Bid:%s:%s:%s", x, n, rnsBig)
					add("Bid:%s:%s:30000000ujkl", x, n) // an escrow larger than the price of a name
				}
			}
			add("Cancel:%s:%s", x, n)
			for _, y := range others(x) {
				add("Accept:%s:%s:%s", x, n, y)
				add("Transfer:%s:%s:%s", x, n, y)
			}
			add("Accept:%s:%s:%s", x, n, x) // its own bid (placed before it came to own the name)
			if s.Prop == "C08" {
				add("Update:%s:%s", x, n)
				add("AddRecord:%s:%s", x, n)
				add("DelRecord:%s:%s", x, n)
			}
		}
	}
	// the same names spelled with capitals (names are case-insensitive)
	for _, x := range rnsWho {
		if s.Prop == "C09" {
			add("Bid:%s:Alpha.jkl:7ujkl", x)
			add("Bid:%s:EXP.jkl:5uatom", x)
			add("Cancel:%s:Alpha.jkl", x)
			for _, y := range others(x) {
				add("Accept:%s:Exp.jkl:%s", x, y)
			}
			// the name written with another character than a dot before its top-level domain (the chain resolves it
			// to the same name; the bid is a record of its own)
			add("Bid:%s:exp_jkl:7ujkl", x)
			add("Cancel:%s:exp_jkl", x)
			for _, y := range others(x) {
				add("Accept:%s:exp_jkl:%s", x, y)
			}
		} else {
			add("Init:%s:-", x)
			add("MakePrimary:%s:alpha.jkl", x) // the chain lets anybody point its primary name at any name
			add("MakePrimary:%s:exp.jkl", x)
			// a paid registration of a free name that somebody's Init was given
			for _, fn := range rnsFree {
				if _, ok := env.W().App.RnsKeeper.GetNames(env.Ctx(), strings.TrimSuffix(fn, ".jkl"), "jkl"); ok {
					add("Register:%s:%s", x, fn)
				}
			}
			add("Register:%s:Alpha.jkl", x)
			// a record of alpha.jkl labelled like the other name, then messages addressed to the record's dotted path
			add("AddRecordNamed:%s:alpha.jkl", x)
			add("Update:%s:exp.alpha.jkl", x)
			for _, y := range others(x) {
				add("Transfer:%s:exp.alpha.jkl:%s", x, y)
			}
			add("Register:%s:al pha.jkl", x) // a space inside the label
			add("Register:%s:e xp.jkl", x)
			add("List:%s:Exp.jkl:5ujkl", x)
			add("Buy:%s:EXP.jkl", x)
			add("Delist:%s:Exp.jkl", x)
			for _, y := range others(x) {
				add("Transfer:%s:Exp.jkl:%s", x, y)
			}
		}
	}
	if s.Prop == "C09" {
		for _, n := range rnsNames {
			add("Register:P:%s", n) // by an account that cannot pay for it
		}
	}
	if m.Blocks < rnsMaxBlocks {
		add("NextBlock")
	}
	return evs
}

type rnsSnap struct {
	names  map[string]rnstypes.Names
	sales  map[string]rnstypes.Forsale
	bids   map[string]rnstypes.Bids
	bidSum sdk.Coins
}

func rnsSnapshot(w *world.World, ctx sdk.Context) rnsSnap {
	k := w.App.RnsKeeper
	s := rnsSnap{names: map[string]rnstypes.Names{}, sales: map[string]rnstypes.Forsale{}, bids: map[string]rnstypes.Bids{}}
	for _, n := range k.GetAllNames(ctx) {
		s.names[n.Name+"."+n.Tld] = n
	}
	for _, f := range k.GetAllForsale(ctx) {
		s.sales[f.Name] = f
	}
	for _, b := range k.GetAllBids(ctx) {
		s.bids[b.Index] = b
		c, err := sdk.ParseCoinsNormalized(b.Price)
		if err == nil {
			s.bidSum = s.bidSum.Add(c...)
		}
	}
	return s
}

func subKey(n rnstypes.Names) string {
	var parts []string
	for _, sd := range n.Subdomains {
		parts = append(parts, sd.Name+"="+sd.Value+"/"+sd.Data)
	}
	sort.Strings(parts)
	return strings.Join(parts, ",")
}

func (s RNS) msgFor(w *world.World, p []string) sdk.Msg {
	x := w.A(p[1]).Bech
	switch p[0] {
	case "MakePrimary":
		mp := rnstypes.NewMsgMakePrimary(p[2])
		mp.Creator = x
		return mp
	case "Init":
		return rnstypes.NewMsgInit(x)
	case "Register":
		return rnstypes.NewMsgRegisterName(x, p[2], 1, `{"by":"`+p[1]+`"}`, false)
	case "List":
		c, _ := sdk.ParseCoinNormalized(p[3])
		return rnstypes.NewMsgList(x, p[2], c)
	case "Delist":
		return rnstypes.NewMsgDeList(x, p[2])
	case "Buy":
		return rnstypes.NewMsgBuy(x, p[2])
	case "Bid":
		c, _ := sdk.ParseCoinNormalized(p[3])
		return rnstypes.NewMsgBid(x, p[2], c)
	case "Cancel":
		return rnstypes.NewMsgCancelBid(x, p[2])
	case "Accept":
		return rnstypes.NewMsgAcceptBid(x, p[2], w.A(p[3]).Bech)
	case "Transfer":
		return rnstypes.NewMsgTransfer(x, p[2], w.A(p[3]).Bech)
	case "Update":
		return rnstypes.NewMsgUpdate(x, p[2], `{"upd":"`+p[1]+`"}`)
	case "AddRecord":
		return rnstypes.NewMsgAddRecord(x, p[2], "sub", x, `{"rec":"`+p[1]+`"}`)
	case "AddRecordNamed":
		return rnstypes.NewMsgAddRecord(x, p[2], "exp", x, `{"rec":"`+p[1]+`"}`)
	case "DelRecord":
		return rnstypes.NewMsgDelRecord(x, "sub."+p[2])
	}
	panic("unknown event " + strings.Join(p, ":"))
}

func (s RNS) Apply(env world.Env, mm mc.Model, ev string) mc.Step {
	w := env.W()
	m := mm.(rnsModel).clone()
	p := split(ev)
	st := mc.Step{Outcome: "rejected"}
	if p[0] == "NextBlock" {
		if bp := env.NextBlock(6 * time.Second); bp != nil {
			st.Viols = append(st.Viols, viol("no-panic", "block-panic", "%s", bp.Value))
		}
		m.Blocks++
		st.Model, st.Outcome = m, "block"
		return st
	}
	rawName := p[2]
	p[2] = strings.ToLower(p[2]) // names are case-insensitive: the oracle works on the canonical spelling
	height := env.Ctx().BlockHeight()
	before := rnsSnapshot(w, env.Ctx())
	balBefore := w.Balances(env.Ctx())
	signer := w.A(p[1]).Bech
	mp := append([]string{}, p...)
	mp[2] = rawName
	var res world.TxResult
	if p[0] == "BidFail" {
		bid := append([]string{"Bid"}, mp[1:]...)
		res = env.DeliverMulti([]sdk.Msg{s.msgFor(w, bid), rnstypes.NewMsgCancelBid(signer, "nosuchname.jkl")})
		if res.OK() {
			panic("harness: a transaction whose second message cancels a bid that does not exist was accepted")
		}
	} else {
		res = env.Deliver(s.msgFor(w, mp))
	}
	after := rnsSnapshot(w, env.Ctx())
	balAfter := w.Balances(env.Ctx())
	d := world.BalDiff(balBefore, balAfter)
	if res.OK() {
		st.Outcome = "ok"
	}
	rnsMod := modAddr(rnstypes.ModuleName).String()
	labels := map[string]string{rnsMod: "rns-module"}
	var vs []mc.Viol

	if s.Prop == "C08" {
		for _, n := range s.watched() {
			nb, okb := before.names[n]
			if !okb {
				continue
			}
			na, oka := after.names[n]
			if height == nb.Expires {
				continue // boundary: the handlers themselves disagree whether the name is live here; unspecified
			}
			if height > nb.Expires {
				continue // expired: anyone may take it over by registering
			}
			st.Exercised = append(st.Exercised, "live-name-step")
			ownerBefore := nb.Value
			if !oka {
				vs = append(vs, viol("live-name-kept", "removed via="+p[0], "live name %s disappeared", n))
				continue
			}
			ownerChanged := na.Value != ownerBefore
			contentChanged := na.Data != nb.Data || subKey(na) != subKey(nb)
			if ownerChanged {
				st.Exercised = append(st.Exercised, "owner-change")
				legit := false
				var price sdk.Coins
				switch p[0] {
				case "Transfer":
					legit = signer == ownerBefore && p[2] == n
				case "Accept":
					legit = signer == ownerBefore && p[2] == n
					if b, ok := before.bids[w.A(p[3]).Bech+n]; ok {
						price, _ = sdk.ParseCoinsNormalized(b.Price)
					}
				case "Buy":
					sale, ok := before.sales[n]
					legit = ok && sale.Owner == ownerBefore && p[2] == n
					if ok {
						price, _ = sdk.ParseCoinsNormalized(sale.Price)
					}
					if ok && sale.Owner != ownerBefore {
						vs = append(vs, viol("owner-change-needs-consent", "via=Buy listing.creator≠owner",
							"%s bought %s through a listing created by %s, but the owner was %s", p[1], n, w.NameOf(sale.Owner), w.NameOf(ownerBefore)))
						continue
					}
				}
				if !legit {
					vs = append(vs, viol("owner-change-needs-consent", "via="+p[0]+" signer≠owner",
						"owner of live %s changed %s→%s by %s signed by %s", n, w.NameOf(ownerBefore), w.NameOf(na.Value), p[0], p[1]))
					continue
				}
				if p[0] == "Buy" || p[0] == "Accept" {
					st.Exercised = append(st.Exercised, "paid-owner-change")
					for _, c := range price {
						if !deltaOf(d, ownerBefore, c.Denom).Equal(c.Amount) {
							vs = append(vs, viol("previous-owner-paid-in-full", "via="+p[0],
								"price %s, previous owner %s balance change %s; all changes %s", price, w.NameOf(ownerBefore), deltaOf(d, ownerBefore, c.Denom), diffString(w, d, labels)))
						}
					}
				}
			} else if signer != ownerBefore && contentChanged {
				vs = append(vs, viol("non-owner-changes-nothing", "content via="+p[0],
					"%s (not the owner %s) changed data/records of live %s", p[1], w.NameOf(ownerBefore), n))
			}
			// the owner's sale listing is the owner's: nobody else creates, re-prices or removes it (a purchase through
			// it moves the name and is judged above)
			if signer != ownerBefore && !ownerChanged {
				sb, had := before.sales[n]
				sa, still := after.sales[n]
				switch {
				case had && sb.Owner == ownerBefore && (!still || sa.Price != sb.Price || sa.Owner != sb.Owner):
					vs = append(vs, viol("non-owner-changes-nothing", "listing via="+p[0], "%s (not the owner %s) changed the owner's listing of live %s: %s by %s -> %s by %s (still listed: %v)",
						p[1], w.NameOf(ownerBefore), n, sb.Price, w.NameOf(sb.Owner), sa.Price, w.NameOf(sa.Owner), still))
				case !had && still:
					vs = append(vs, viol("non-owner-changes-nothing", "listing-created via="+p[0], "%s (not the owner %s) put live %s on sale at %s", p[1], w.NameOf(ownerBefore), n, sa.Price))
				}
			}
			if signer != ownerBefore && na.Expires != nb.Expires && p[0] != "Register" {
				vs = append(vs, viol("non-owner-changes-nothing", "expiry via="+p[0], "expiry of %s changed by non-owner", n))
			}
			if p[0] == "Register" && p[2] == n && signer != ownerBefore && res.OK() {
				vs = append(vs, viol("live-name-not-reregistered", "Register by non-owner accepted", "%s registered live name %s owned by %s", p[1], n, w.NameOf(ownerBefore)))
			}
		}
		if !res.OK() && len(d) != 0 {
			vs = append(vs, viol("failed-tx-moves-nothing", p[0], "failed %s changed balances %s", ev, diffString(w, d, labels)))
		}
	}

	if s.Prop == "C09" {
		// delta form: Δ module balance == Δ Σ open bids, per denomination
		dSum, neg := after.bidSum.SafeSub(before.bidSum)
		_ = neg
		for _, denom := range []string{"ujkl", "uatom", "ubig"} {
			dm := deltaOf(d, rnsMod, denom)
			if !dm.Equal(dSum.AmountOf(denom)) {
				why := "via=" + p[0]
				if p[0] == "Bid" {
					if _, had := before.bids[signer+p[2]]; had {
						why += " rebid-overwrites-open-bid"
					}
				}
				vs = append(vs, viol("module-holds-sum-of-open-bids", why,
					"%s: module %s changed by %s but the sum of open bids by %s", ev, denom, dm, dSum.AmountOf(denom)))
			}
		}
		key := p[1] + "|" + p[2]
		switch p[0] {
		case "Bid":
			st.Exercised = append(st.Exercised, "bid")
			if res.OK() {
				if m.Escrow[key] != "" {
					st.Exercised = append(st.Exercised, "rebid")
				}
				// everything the bidder has put in escrow for this name and not yet got back: a refund of a
				// replaced bid shows up as a smaller net debit, so escrow -= Δbalance(bidder) per denomination
				m.Escrow[key] = escrowAdd(m.Escrow[key], d[signer])
			}
		case "Cancel":
			if _, open := before.bids[signer+p[2]]; open && m.Escrow[key] != "" && !res.OK() && rawName == p[2] {
				// the bidder's own open bid, addressed by the spelling it is stored under: cancelling is how the escrow comes back
				vs = append(vs, viol("cancel-returns-all-escrow", "cancel-of-an-open-bid-rejected", "%s has an open bid (%s escrowed) on %s but cannot cancel it: %v", p[1], m.Escrow[key], p[2], res.Err))
			}
			if res.OK() {
				st.Exercised = append(st.Exercised, "cancel-ok")
				esc, _ := sdk.ParseCoinsNormalized(m.Escrow[key])
				for _, dn := range []string{"ujkl", "uatom", "ubig"} {
					if !deltaOf(d, signer, dn).Equal(esc.AmountOf(dn)) {
						vs = append(vs, viol("cancel-returns-all-escrow", "refund≠escrowed",
							"%s escrowed %s for %s, cancel returned %s%s", p[1], esc, p[2], deltaOf(d, signer, dn), dn))
					}
				}
				if _, still := after.bids[signer+p[2]]; still {
					vs = append(vs, viol("cancel-removes-bid", "bid-left", "bid still open after cancel"))
				}
				delete(m.Escrow, key)
			}
		case "Accept":
			if res.OK() {
				st.Exercised = append(st.Exercised, "accept-ok")
				bkey := p[3] + "|" + p[2]
				esc, _ := sdk.ParseCoinsNormalized(m.Escrow[bkey])
				for _, dn := range []string{"ujkl", "uatom", "ubig"} {
					if !deltaOf(d, signer, dn).Equal(esc.AmountOf(dn)) {
						vs = append(vs, viol("accept-pays-owner-the-escrow", "paid≠escrowed",
							"%s escrowed %s for %s, owner received %s%s", p[3], esc, p[2], deltaOf(d, signer, dn), dn))
					}
				}
				if _, still := after.bids[w.A(p[3]).Bech+p[2]]; still {
					vs = append(vs, viol("accept-removes-bid", "bid-left", "bid still open after accept"))
				}
				delete(m.Escrow, bkey)
			}
		case "Register", "Buy":
			if !deltaOf(d, rnsMod, "ujkl").IsZero() || !deltaOf(d, rnsMod, "uatom").IsZero() || !deltaOf(d, rnsMod, "ubig").IsZero() {
				vs = append(vs, viol("no-residue", "via="+p[0], "%s left %s in the module account", ev, diffString(w, d, labels)))
			}
		}
		if !res.OK() && len(d) != 0 {
			vs = append(vs, viol("failed-tx-moves-nothing", p[0], "failed %s changed balances %s", ev, diffString(w, d, labels)))
		}
	}
	st.Model, st.Viols = m, vs
	return st
}

// escrowAdd subtracts the bidder's balance change (negative when paying) from the escrow tally "denom=amt,...".
func escrowAdd(cur string, delta map[string]sdk.Int) string {
	t := map[string]sdk.Int{} // arbitrary precision: bids may exceed 2^63-1
	if cur != "" {
		cs, _ := sdk.ParseCoinsNormalized(cur)
		for _, c := range cs {
			t[c.Denom] = c.Amount
		}
	}
	for dn, v := range delta {
		if _, ok := t[dn]; !ok {
			t[dn] = sdk.ZeroInt()
		}
		t[dn] = t[dn].Sub(v)
	}
	out := sdk.NewCoins()
	for dn, v := range t {
		if v.IsPositive() {
			out = out.Add(sdk.NewCoin(dn, v))
		}
	}
	return out.String()
}

// c08SiblingEnum: fixed histories with the same label under both top-level domains (the search alphabet has .jkl names only).
func c08SiblingEnum() mc.Enum {
	var paths [][]string
	for _, listed := range []string{"alpha.jkl", "alpha.ibc"} {
		other := map[string]string{"alpha.jkl": "alpha.ibc", "alpha.ibc": "alpha.jkl"}[listed]
		reg := []string{"Register:A:alpha.jkl", "Register:A:alpha.ibc"}
		paths = append(paths,
			cat(reg, []string{"List:A:" + listed + ":5ujkl", "Buy:B:" + other, "Buy:C:" + listed, "Delist:A:" + other}),
			cat(reg, []string{"List:A:" + listed + ":5ujkl", "Delist:A:" + other, "Buy:B:" + listed}),
			cat(reg, []string{"Bid:B:" + listed + ":7ujkl", "Accept:A:" + other + ":B", "Cancel:B:" + other, "Accept:A:" + listed + ":B"}),
			cat(reg, []string{"Transfer:A:" + listed + ":B", "Transfer:B:" + other + ":C", "Update:B:" + other, "AddRecord:B:" + other}),
			cat([]string{"Register:A:" + listed, "Register:B:" + other, "List:A:" + listed + ":5ujkl", "List:B:" + other + ":7ujkl", "Buy:C:" + listed, "Buy:C:" + other}))
	}
	return pathEnum("C08", "C08/sibling-paths", RNS{Prop: "C08"}, paths)
}

func init() {
	CaseReplayers["C08/sibling-paths"] = func(r *mc.Run, c string) { r.ReplayCase(c08SiblingEnum(), c) }
	for _, id := range []string{"C08", "C09"} {
		regScenario(RNS{Prop: id})
	}
	Props["C08"] = Prop{Level: "model_checking", Run: func(r *mc.Run, tier string) {
		r.Rules = append(r.Rules, "BFS over 91 events/state: register, list(2 prices), delist, buy, bid(2), accept, cancel, transfer, update, add/del record by A,B,C on 2 names (one fresh, one genesis-seeded expiring at height 5) + NextBlock; state key = rns+bank stores, header, model")
		r.Assumptions = append(r.Assumptions, "height == Expires treated as unspecified (handlers disagree there)", "3 principals, 2 names, 1-year terms")
		r.AddExplore(RNS{Prop: "C08"}, opts(tier, 4, 6, 70, 1500, 200, 3000))
		r.Rules = append(r.Rules, "sibling paths: 10 fixed histories with the same label registered under both top-level domains (listing, purchase, bid, acceptance, transfer, update on one of them, tried on the other), every step judged by the same oracle")
		r.AddEnum(c08SiblingEnum(), workers(), time.Time{})
	}}
	Props["C09"] = Prop{Level: "model_checking", Run: func(r *mc.Run, tier string) {
		r.Rules = append(r.Rules, "BFS over 67 events/state: bid (5ujkl,7ujkl,5uatom; repeats allowed), cancel, accept, register, list, buy, transfer by A,B,C on 2 names + NextBlock; oracle Δmodule = ΔΣ open bids on every transition")
		r.Assumptions = append(r.Assumptions, "3 principals, 2 names, 3 bid values in 2 denominations")
		r.AddExplore(RNS{Prop: "C09"}, opts(tier, 4, 6, 70, 1500, 200, 3000))
	}}
}
