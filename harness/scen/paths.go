package scen

import (
	"strings"

	"verif/harness/mc"
	"verif/harness/world"
)

// pathEnum runs fixed event sequences of a scenario - each one far deeper than the breadth-first search of that
// scenario goes - through the scenario's own Apply, so that every step is judged by the scenario's own oracle.
func pathEnum(prop, name string, sc mc.Scenario, paths [][]string) mc.Enum {
	e := mc.Enum{Prop: prop, Name: name, Cfg: sc.Config(), ConfirmB: true, ConfB: len(paths)}
	for _, p := range paths {
		p := p
		e.Cases = append(e.Cases, mc.Case{Desc: strings.Join(p, " ; "), Run: func(env world.Env) mc.CaseResult {
			cr := mc.CaseResult{Class: "path", Nontrivial: true}
			m := sc.Init(env)
			for i, ev := range p {
				st := sc.Apply(env, m, ev)
				for _, v := range st.Viols {
					v.Detail = "step " + itoa(i+1) + " (" + ev + "): " + v.Detail
					cr.Viols = append(cr.Viols, v)
				}
				m = st.Model
				cr.Count++
				cr.NontrivialCount++
			}
			return cr
		}})
	}
	return e
}

func itoa(i int) string {
	if i == 0 {
		return "0"
	}
	s := ""
	for n := i; n > 0; n /= 10 {
		s = string(rune('0'+n%10)) + s
	}
	return s
}

func rep(ev string, n int) []string {
	var o []string
	for i := 0; i < n; i++ {
		o = append(o, ev)
	}
	return o
}

func cat(parts ...[]string) []string {
	var o []string
	for _, p := range parts {
		o = append(o, p...)
	}
	return o
}
