package mc

import (
	"bytes"
	"crypto/sha256"
	"encoding/hex"
	"encoding/json"
	"fmt"
	"os"
	"path/filepath"
	"sort"
	"strings"
	"sync"
	"time"

	"verif/harness/world"
)

// VerifDir is where evidence/, out/ and known_findings.json live (VERIF_DIR, default /verif).
var VerifDir = func() string {
	if d := os.Getenv("VERIF_DIR"); d != "" {
		return d
	}
	return "/verif"
}()

// ---------------------------------------------------------------------------------------------
// conformance: replay search-tree paths at seam B and compare the full store dumps

// Normalizer may rewrite a KV pair before comparison (seam-dependent fields only).
type Normalizer interface {
	Normalize(w *world.World, store string, kv world.KV) world.KV
}

// ConfStores lets a scenario compare more/less stores than it keys on.
type ConfStores interface{ ConformanceStores() []string }

func dumpFor(sc Scenario, env world.Env) map[string][]world.KV {
	stores := sc.Stores()
	if cs, ok := sc.(ConfStores); ok {
		stores = cs.ConformanceStores()
	}
	out := map[string][]world.KV{}
	for _, s := range stores {
		if s == "acc" || s == "params" {
			continue // sequence numbers / fee bookkeeping differ by construction
		}
		kvs := env.W().DumpStore(env.Ctx(), s)
		for i := range kvs {
			kvs[i] = world.NormalizeKV(env.W(), s, kvs[i])
			if n, ok := sc.(Normalizer); ok {
				kvs[i] = n.Normalize(env.W(), s, kvs[i])
			}
		}
		out[s] = kvs
	}
	return out
}

func diffDumps(a, b map[string][]world.KV) string {
	for _, s := range world.SortedKeys(a) {
		x, y := a[s], b[s]
		mx := map[string][]byte{}
		for _, kv := range x {
			mx[string(kv.K)] = kv.V
		}
		my := map[string][]byte{}
		for _, kv := range y {
			my[string(kv.K)] = kv.V
		}
		for k, v := range mx {
			w, ok := my[k]
			if !ok {
				return fmt.Sprintf("store %s key %q present at seam A only", s, k)
			}
			if !bytes.Equal(v, w) {
				return fmt.Sprintf("store %s key %q differs: A=%x B=%x", s, k, v, w)
			}
		}
		for k := range my {
			if _, ok := mx[k]; !ok {
				return fmt.Sprintf("store %s key %q present at seam B only", s, k)
			}
		}
	}
	return ""
}

// ConformPath replays one path at both seams and compares stores and model.
func ConformPath(sc Scenario, path []string) string {
	ws := newWState(sc)
	ea, ma := ws.rebuild(sc, path)
	_, eb, mb, err := ReplayB(sc, path)
	if err != nil {
		return err.Error()
	}
	if d := diffDumps(dumpFor(sc, ea), dumpFor(sc, eb)); d != "" {
		return d
	}
	var ka, kb []byte
	if ma != nil {
		ka = ma.Key()
	}
	if mb != nil {
		kb = mb.Key()
	}
	if !bytes.Equal(ka, kb) {
		return fmt.Sprintf("reference model differs between seams: A=%s B=%s", ka, kb)
	}
	return ""
}

// Conformance replays up to k tree paths.
func Conformance(sc Scenario, res *Result, paths [][]string, workers int) {
	type r struct {
		i int
		d string
	}
	ch := make(chan r, len(paths))
	sem := make(chan struct{}, workers)
	for i := range paths {
		sem <- struct{}{}
		go func(i int) {
			defer func() { <-sem }()
			ch <- r{i, ConformPath(sc, paths[i])}
		}(i)
	}
	for i := 0; i < cap(sem); i++ {
		sem <- struct{}{}
	}
	close(ch)
	var mism []r
	for x := range ch {
		if x.d == "" {
			res.ConfValidated++
		} else {
			mism = append(mism, x)
		}
	}
	sort.Slice(mism, func(a, b int) bool { return mism[a].i < mism[b].i })
	for _, x := range mism {
		res.ConfMismatch = append(res.ConfMismatch, fmt.Sprintf("%v: %s", paths[x.i], x.d))
	}
}

// ---------------------------------------------------------------------------------------------
// reproduction gate

func hasSig(st Step, sig string) bool {
	for _, v := range st.Viols {
		if v.Sig == sig {
			return true
		}
	}
	return false
}

// Confirm re-runs every found violation twice at seam A and at seam B.
func Confirm(sc Scenario, res *Result) {
	for _, sig := range world.SortedKeys(res.Found) {
		f := res.Found[sig]
		reproA := func(path []string) (Step, bool) {
			s1, k1, _ := ReplayA(sc, path)
			s2, k2, _ := ReplayA(sc, path)
			return s1, hasSig(s1, sig) && hasSig(s2, sig) && k1 == k2
		}
		if _, ok := reproA(f.Path); !ok {
			// The path that first showed this signature does not show it on a fresh replay: what was observed depended on
			// something outside the replayed state (state kept outside the store by the code under check). Other paths that
			// showed the same signature are tried in turn, shortest first; only a path that reproduces is reported.
			first := f.Path
			sort.SliceStable(f.Alts, func(a, b int) bool {
				if len(f.Alts[a]) != len(f.Alts[b]) {
					return len(f.Alts[a]) < len(f.Alts[b])
				}
				return strings.Join(f.Alts[a], "|") < strings.Join(f.Alts[b], "|")
			})
			found := false
			for i, alt := range f.Alts {
				if i >= 60 {
					break
				}
				if s1, ok := reproA(alt); ok {
					f.Path = alt
					for _, v := range s1.Viols {
						if v.Sig == sig {
							f.Viol = v
						}
					}
					f.ReproNote = fmt.Sprintf("first observed on path %v, which does not reproduce on a fresh replay", first)
					found = true
					break
				}
			}
			if !found {
				// Second fallback: the observation may need a preceding transaction that leaves the stored state unchanged (a
				// rejected one, for instance), which the state-keyed search treats as a self-loop and never extends. For the
				// shortest paths P+[ev] that showed the signature, every P+[e', ev] with e' enabled after P is replayed afresh.
				cands := append([][]string{first}, f.Alts...)
				if len(cands) > 40 {
					cands = cands[:40]
				}
				type job struct{ path []string }
				var jobs []job
				seen := map[string]bool{}
				for _, c := range cands {
					if len(c) == 0 {
						continue
					}
					pre, ev := c[:len(c)-1], c[len(c)-1]
					ws := newWState(sc)
					m := ws.m0
					e2 := ws.base.Fork()
					for _, x := range pre {
						m = sc.Apply(e2, m, x).Model
					}
					for _, mid := range sc.Events(e2, m) {
						p := append(append(append([]string{}, pre...), mid), ev)
						if k := strings.Join(p, "|"); !seen[k] {
							seen[k] = true
							jobs = append(jobs, job{p})
						}
					}
				}
				hit := make([]bool, len(jobs))
				var wg sync.WaitGroup
				sem := make(chan struct{}, 16)
				for i := range jobs {
					wg.Add(1)
					sem <- struct{}{}
					go func(i int) {
						defer wg.Done()
						defer func() { <-sem; _ = recover() }()
						s1, _, _ := ReplayA(sc, jobs[i].path)
						hit[i] = hasSig(s1, sig)
					}(i)
				}
				wg.Wait()
				for i := range jobs {
					if hit[i] {
						if s1, ok := reproA(jobs[i].path); ok {
							f.Path = jobs[i].path
							for _, v := range s1.Viols {
								if v.Sig == sig {
									f.Viol = v
								}
							}
							f.ReproNote = fmt.Sprintf("first observed on path %v, which does not reproduce on a fresh replay; reproduces with a preceding step that leaves the stored state unchanged", first)
							found = true
							break
						}
					}
				}
			}
			if !found {
				res.HarnessErrors = append(res.HarnessErrors, fmt.Sprintf("non-deterministic replay at seam A for %q path %v (and %d further paths)", sig, first, len(f.Alts)))
				continue
			}
		}
		sb, _, _, err := ReplayB(sc, f.Path)
		if err != nil {
			res.HarnessErrors = append(res.HarnessErrors, fmt.Sprintf("HARNESS-DIVERGENCE seam B replay error for %q path %v: %v", sig, f.Path, err))
			continue
		}
		if !hasSig(sb, sig) {
			var got []string
			for _, v := range sb.Viols {
				got = append(got, v.Sig)
			}
			res.HarnessErrors = append(res.HarnessErrors, fmt.Sprintf("HARNESS-DIVERGENCE violation %q found at seam A does not reproduce at seam B (path %v; seam B violations: %v)", sig, f.Path, got))
			continue
		}
		sb2, _, _, _ := ReplayB(sc, f.Path)
		if !hasSig(sb2, sig) {
			res.HarnessErrors = append(res.HarnessErrors, fmt.Sprintf("non-deterministic replay at seam B for %q", sig))
			continue
		}
		f.Confirmed = true
	}
}

// ---------------------------------------------------------------------------------------------
// known findings

type Finding struct {
	Property  string `json:"property"`
	Signature string `json:"signature"`
	Status    string `json:"status"` // "known" | "fixed"
	Commit    string `json:"commit,omitempty"`
	What      string `json:"what"`
}

type FindingsFile struct {
	Findings []Finding `json:"findings"`
}

func LoadFindings() FindingsFile {
	var ff FindingsFile
	bz, err := os.ReadFile(filepath.Join(VerifDir, "known_findings.json"))
	if err != nil {
		return ff
	}
	if err := json.Unmarshal(bz, &ff); err != nil {
		fmt.Fprintf(os.Stderr, "cannot parse known_findings.json: %v\n", err)
		os.Exit(2)
	}
	return ff
}

func (ff FindingsFile) Known(prop, sig string) (Finding, bool) {
	for _, f := range ff.Findings {
		if f.Property == prop && f.Status == "known" && f.Signature == sig {
			return f, true
		}
	}
	return Finding{}, false
}

// ---------------------------------------------------------------------------------------------
// violation records

type Record struct {
	Property  string   `json:"property"`
	Scenario  string   `json:"scenario"`
	Kind      string   `json:"kind"` // "history" (explorer path) or "case" (enumerated input)
	Clause    string   `json:"clause"`
	Signature string   `json:"signature"`
	Detail    string   `json:"detail"`
	Path      []string `json:"path,omitempty"`
	Case      string   `json:"case,omitempty"`
}

func WriteRecord(r Record) string {
	dir := filepath.Join(VerifDir, "out", r.Property)
	_ = os.MkdirAll(dir, 0o755)
	h := sha256.Sum256([]byte(r.Scenario + "|" + r.Signature))
	p := filepath.Join(dir, hex.EncodeToString(h[:6])+".json")
	bz, _ := json.MarshalIndent(r, "", " ")
	_ = os.WriteFile(p, bz, 0o644)
	return p
}

// ---------------------------------------------------------------------------------------------
// evidence

type Evidence struct {
	PropertyID  string                 `json:"property_id"`
	Tier        string                 `json:"tier"`
	Seed        int64                  `json:"seed"`
	Level       string                 `json:"level"`
	Coverage    map[string]interface{} `json:"coverage"`
	Assumptions []string               `json:"assumptions"`
	WallS       float64                `json:"wall_s"`
	Violations  int                    `json:"violations"`
}

func WriteEvidence(e Evidence) {
	_ = os.MkdirAll(filepath.Join(VerifDir, "evidence"), 0o755)
	bz, _ := json.MarshalIndent(e, "", " ")
	p := filepath.Join(VerifDir, "evidence", e.PropertyID+".json")
	if err := os.WriteFile(p, bz, 0o644); err != nil {
		fmt.Fprintf(os.Stderr, "cannot write evidence: %v\n", err)
		os.Exit(2)
	}
}

// Run bundles what one property check did; sub-results from several scenarios / enumerations are merged.
type Run struct {
	Prop                        string
	Tier                        string
	Level                       string
	Start                       time.Time
	Out                         *os.File
	States, Transitions, Traces int
	Evaluations, Nontrivial     int
	Exhaustive                  bool
	Rules                       []string
	Samples                     []interface{}
	Sub                         []map[string]interface{}
	Assumptions                 []string
	Violations                  int
	Known                       int
	Harness                     []string
	ff                          FindingsFile
	printedKnown                map[string]bool
	NoEvidence                  bool
}

func NewRun(prop, tier, level string) *Run {
	return &Run{Prop: prop, Tier: tier, Level: level, Start: time.Now(), Out: world.Muzzle(), Exhaustive: true,
		ff: LoadFindings(), printedKnown: map[string]bool{}}
}

func (r *Run) Printf(f string, a ...interface{}) { fmt.Fprintf(r.Out, f, a...) }

// Report classifies one confirmed violation: known finding or VIOLATION.
func (r *Run) Report(rec Record) {
	if f, ok := r.ff.Known(rec.Property, rec.Signature); ok {
		if !r.printedKnown[rec.Signature] {
			r.printedKnown[rec.Signature] = true
			r.Known++
			r.Printf("KNOWN-FINDING: property=%s %s [signature=%s]\n", rec.Property, f.What, rec.Signature)
		}
		return
	}
	p := WriteRecord(rec)
	r.Violations++
	r.Printf("VIOLATION property=%s replay=%s\n", rec.Property, p)
	r.Printf("  clause=%s signature=%s\n  %s\n", rec.Clause, rec.Signature, rec.Detail)
	if len(rec.Path) > 0 {
		r.Printf("  history=%s\n", strings.Join(rec.Path, " ; "))
	}
	if rec.Case != "" {
		r.Printf("  case=%s\n", rec.Case)
	}
}

// AddExplore runs a scenario search with conformance and reproduction, and merges its result.
func (r *Run) AddExplore(sc Scenario, opt Options) *Result {
	res := Explore(sc, opt)
	// conformance traces: shallow-complete prefix of the BFS tree + evenly spaced deep paths
	paths := confPaths(sc, res, opt)
	Conformance(sc, res, paths, maxInt(1, opt.Workers))
	Confirm(sc, res)
	r.States += res.States
	r.Transitions += res.Transitions
	r.Traces += res.ConfValidated
	r.Evaluations += res.Transitions
	r.Nontrivial += res.Nontrivial
	if !res.Exhaustive {
		r.Exhaustive = false
	}
	for _, s := range res.Samples {
		if len(r.Samples) < 8 {
			r.Samples = append(r.Samples, map[string]interface{}{"scenario": sc.Name(), "history": s})
		}
	}
	sub := map[string]interface{}{
		"scenario": sc.Name(), "states": res.States, "transitions": res.Transitions, "depth_completed": res.DepthCompleted,
		"max_depth": opt.MaxDepth, "exhaustive_to_depth": res.Exhaustive, "saturated": res.Saturated, "cap_hit": res.CapHit,
		"states_per_level": res.PerLevel, "outcomes_per_event_kind": res.Outcomes, "clauses_exercised": res.Exercised,
		"distinct_nontrivial": res.Nontrivial, "conformance_traces": res.ConfValidated, "wall_s": res.Wall,
		"distinct_violation_signatures": len(res.Found),
	}
	r.Sub = append(r.Sub, sub)
	r.Printf("[%s] %s: states=%d transitions=%d depth=%d/%d exhaustive=%v saturated=%v nontrivial=%d conf=%d sigs=%d wall=%.1fs %s\n",
		r.Prop, sc.Name(), res.States, res.Transitions, res.DepthCompleted, opt.MaxDepth, res.Exhaustive, res.Saturated, res.Nontrivial,
		res.ConfValidated, len(res.Found), res.Wall, res.CapHit)
	for _, m := range res.ConfMismatch {
		r.Harness = append(r.Harness, "HARNESS-DIVERGENCE conformance: "+m)
	}
	r.Harness = append(r.Harness, res.HarnessErrors...)
	for _, sig := range world.SortedKeys(res.Found) {
		f := res.Found[sig]
		if !f.Confirmed {
			continue
		}
		r.Report(Record{Property: sc.ID(), Scenario: sc.Name(), Kind: "history", Clause: f.Viol.Clause, Signature: sig, Detail: f.Viol.Detail, Path: f.Path})
	}
	return res
}

func maxInt(a, b int) int {
	if a > b {
		return a
	}
	return b
}

// confPaths enumerates, deterministically, the paths to replay at seam B: it re-runs a small BFS to collect
// tree nodes (the explorer does not retain them) — the first ConfTraces nodes in BFS order.
// TreePaths enumerates up to k paths of the scenario's search tree, breadth first to maxDepth.
func TreePaths(sc Scenario, maxDepth, k int) [][]string {
	return confPaths(sc, &Result{DepthCompleted: maxDepth}, Options{ConfTraces: k})
}

func confPaths(sc Scenario, res *Result, opt Options) [][]string {
	k := opt.ConfTraces
	if k <= 0 {
		return nil
	}
	ws := newWState(sc)
	seen := map[[16]byte]bool{StateKey(ws.base, sc, ws.m0): true}
	frontier := [][]string{{}}
	var out [][]string
	out = append(out, []string{})
	for d := 1; d <= res.DepthCompleted+1 && len(out) < k && len(frontier) > 0; d++ {
		var nf [][]string
		for _, p := range frontier {
			env, m := ws.rebuild(sc, p)
			for _, ev := range sc.Events(env, m) {
				c := env.Fork()
				st := sc.Apply(c, m, ev)
				key := StateKey(c, sc, st.Model)
				if seen[key] {
					continue
				}
				seen[key] = true
				np := append(append([]string{}, p...), ev)
				nf = append(nf, np)
			}
			if len(nf) > 4*k {
				break
			}
		}
		// take evenly spaced paths of this level so deep levels are represented
		room := k - len(out)
		take := len(nf)
		if d <= res.DepthCompleted && take > room/2 && d < res.DepthCompleted+1 {
			take = maxInt(1, room/2)
		}
		if take > room {
			take = room
		}
		for i := 0; i < take; i++ {
			out = append(out, nf[i*len(nf)/take])
		}
		frontier = nf
	}
	return out
}

// Finish writes evidence and returns the exit code.
func (r *Run) Finish() int {
	cov := map[string]interface{}{
		"states": r.States, "transitions": r.Transitions, "traces_validated_against_impl": r.Traces,
		"evaluations": r.Evaluations, "distinct_nontrivial": r.Nontrivial,
		"rule":                    strings.Join(r.Rules, " | "),
		"samples":                 r.Samples,
		"exhaustive":              r.Exhaustive && len(r.Harness) == 0,
		"parts":                   r.Sub,
		"known_findings_reported": r.Known,
	}
	if len(r.Samples) == 0 {
		cov["samples"] = []interface{}{"(none)"}
	}
	ev := Evidence{PropertyID: r.Prop, Tier: r.Tier, Seed: seedFromEnv(), Level: r.Level, Coverage: cov,
		Assumptions: r.Assumptions, WallS: time.Since(r.Start).Seconds(), Violations: r.Violations}
	if !r.NoEvidence {
		WriteEvidence(ev)
	}
	for _, h := range r.Harness {
		r.Printf("HARNESS-ERROR %s\n", h)
	}
	r.Printf("[%s] tier=%s states=%d transitions=%d evaluations=%d traces=%d exhaustive=%v violations=%d known=%d wall=%.1fs\n",
		r.Prop, r.Tier, r.States, r.Transitions, r.Evaluations, r.Traces, r.Exhaustive, r.Violations, r.Known, ev.WallS)
	if r.Violations > 0 {
		return 1
	}
	if len(r.Harness) > 0 {
		return 2
	}
	return 0
}

func seedFromEnv() int64 {
	var s int64
	fmt.Sscanf(os.Getenv("VERIF_SEED"), "%d", &s)
	return s
}
