package scen

import (
	"bytes"
	"encoding/json"
	"fmt"
	"sort"
	"strings"
	"sync"
	"time"

	sdk "github.com/cosmos/cosmos-sdk/types"
	"github.com/tendermint/tendermint/libs/log"
	tmtypes "github.com/tendermint/tendermint/types"

	"github.com/jackalLabs/canine-chain/v4/x/filetree"
	fttypes "github.com/jackalLabs/canine-chain/v4/x/filetree/types"
	"github.com/jackalLabs/canine-chain/v4/x/jklmint"
	minttypes "github.com/jackalLabs/canine-chain/v4/x/jklmint/types"
	"github.com/jackalLabs/canine-chain/v4/x/notifications"
	notiftypes "github.com/jackalLabs/canine-chain/v4/x/notifications/types"
	"github.com/jackalLabs/canine-chain/v4/x/oracle"
	oracletypes "github.com/jackalLabs/canine-chain/v4/x/oracle/types"
	"github.com/jackalLabs/canine-chain/v4/x/rns"
	rnstypes "github.com/jackalLabs/canine-chain/v4/x/rns/types"
	"github.com/jackalLabs/canine-chain/v4/x/storage"
	storagetypes "github.com/jackalLabs/canine-chain/v4/x/storage/types"

	"verif/harness/mc"
	"verif/harness/world"
)

// C19 — exporting and re-importing genesis preserves every custom module's state.
type C19 struct{ Deep bool } // Deep: starts from a state holding one record of every kind; events add second instances

type c19Model struct {
	Blocks int
	At     map[string]int // block count at which an event was performed
	Done   []string       // events already performed (each record kind is created once)
	Start  int64
}

func (m c19Model) Key() []byte { return jkey(m) }

var c19Stores = []string{"storage", "rns", "filetree", "oracle", notiftypes.StoreKey, minttypes.StoreKey}

func c19Config() world.Config {
	return world.Config{
		Accounts: []string{"U", "P1", "P2", "B"},
		Storage: func(p *storagetypes.Params) {
			p.ChunkSize, p.ProofWindow, p.CheckWindow = 4, 50, 100
			p.AttestFormSize, p.AttestMinToPass = 1, 1
			p.CollateralPrice = 1000
		},
		Mint: func(p *minttypes.Params) { p.StorageStipendAddress = world.MakeAcct("stipend").Bech },
	}
}

func (C19) ID() string { return "C19" }
func (s C19) Name() string {
	if s.Deep {
		return "C19/export-import-second-instances"
	}
	return "C19/export-import"
}
func (C19) Config() world.Config { return c19Config() }
func (C19) Stores() []string     { return c19Stores }
func (s C19) Init(env world.Env) mc.Model {
	m := c19Model{At: map[string]int{}}
	if s.Deep {
		for _, k := range c19Kinds {
			if c19IsSecond(k.name) {
				continue
			}
			if !c19Do(env, &m, k.name) {
				panic("scenario setup: " + k.name + " failed")
			}
			m.Done = append(m.Done, k.name)
			m.At[k.name] = 0
		}
		sort.Strings(m.Done)
		if bp := env.NextBlock(6 * time.Second); bp != nil {
			panic(bp.Value)
		}
		m.Blocks = 1
	}
	return m
}

func c19IsSecond(name string) bool {
	return strings.HasSuffix(name, "Again") || strings.HasSuffix(name, "Second")
}

// one event per record kind; an event is enabled once its prerequisites were performed
var c19Kinds = []struct {
	name string
	pre  []string
}{
	{"InitProvider:P1", nil}, {"InitProvider:P2", nil}, {"BuyStorage", nil}, {"PostFile", []string{"BuyStorage"}},
	{"Proof:P1", []string{"PostFile"}}, {"Proof:P2", []string{"PostFile"}},
	{"AttReq", []string{"Proof:P1", "Proof:P2", "InitProvider:P1", "InitProvider:P2"}},
	{"RepReq", []string{"Proof:P1", "Proof:P2", "InitProvider:P1", "InitProvider:P2"}},
	{"Register", nil}, {"AddRecord", []string{"Register"}}, {"Bid", nil}, {"List", []string{"Register"}}, {"RnsInit", nil},
	{"Provision", nil}, {"PostKey", nil}, {"FtPost", []string{"Provision"}},
	{"CreateFeed", nil}, {"Notify", nil}, {"Block", nil},
	// second instances that share part of their identity with the first (same content and owner in a later block,
	// same sender and recipient at a later time, a second name / bid / feed of the same account)
	{"PostFileAgain", []string{"PostFile"}}, {"NotifyAgain", []string{"Notify"}}, {"RegisterSecond", []string{"Register"}},
	{"BidSecond", []string{"Bid"}}, {"CreateFeedSecond", []string{"CreateFeed"}},
	{"BuyStorageSecond", []string{"BuyStorage"}},                               // a second plan and payment gauge
	{"AttReqSecond", []string{"AttReq"}}, {"RepReqSecond", []string{"RepReq"}}, // a second open form of each kind
	// governance sets parameters to the lowest values validation accepts / to values unlike the defaults
	{"ParamsZeroSecond", nil}, {"ParamsAltSecond", nil},
	{"AddRecordSecond", []string{"AddRecord"}}, // a second sub-record, added out of alphabetical order
	{"KeybaseSecond", []string{"InitProvider:P1"}},
	{"DeleteFileSecond", []string{"PostFile"}}, // the owner deletes the file while forms about its provers are open // a long provider identity with a multi-byte character across the 64th byte
}

func (s C19) Events(env world.Env, mm mc.Model) []string {
	m := mm.(c19Model)
	var evs []string
	for _, k := range c19Kinds {
		if has(m.Done, k.name) {
			continue
		}
		if !s.Deep && (k.name == "BuyStorageSecond" || k.name == "AttReqSecond" || k.name == "RepReqSecond" || k.name == "AddRecordSecond" || k.name == "KeybaseSecond" || k.name == "DeleteFileSecond" || strings.HasPrefix(k.name, "Params")) {
			continue // reachable only far beyond the depth of the search from the empty state: explored by the Deep variant
		}
		ok := true
		for _, p := range k.pre {
			if !has(m.Done, p) {
				ok = false
			}
		}
		if k.name == "PostFileAgain" || k.name == "NotifyAgain" { // a later block: a different start height / timestamp
			if at, done := m.At[k.pre[0]]; !done || at >= m.Blocks {
				ok = false
			}
		}
		if ok {
			evs = append(evs, k.name)
		}
	}
	lim := 2
	if s.Deep {
		lim = 3
	}
	if m.Blocks < lim {
		evs = append(evs, "NextBlock")
	}
	return evs
}

func c19Do(env world.Env, m *c19Model, ev string) bool {
	w := env.W()
	u, b := w.A("U").Bech, w.A("B").Bech
	f := c01F1
	p := split(ev)
	var msg sdk.Msg
	switch p[0] {
	case "InitProvider":
		n := map[string]string{"P1": "one", "P2": "two"}[p[1]]
		msg = storagetypes.NewMsgInitProvider(w.A(p[1]).Bech, "https://node."+n+".com", 1000, "kb")
	case "BuyStorage":
		msg = storagetypes.NewMsgBuyStorage(u, u, 30, 1_000_000_000, "ujkl")
	case "PostFile":
		m.Start = env.Ctx().BlockHeight()
		msg = storagetypes.NewMsgPostFile(u, f.merkle, 12, 0, 0, 3, "{}")
	case "PostFileAgain":
		msg = storagetypes.NewMsgPostFile(u, f.merkle, 12, 0, 0, 3, "{}")
	case "NotifyAgain":
		msg = notiftypes.NewMsgCreateNotification(b, u, `{"m":2}`, nil)
	case "RegisterSecond":
		msg = rnstypes.NewMsgRegisterName(u, "beta.jkl", 2, "{}", false)
	case "BidSecond":
		msg = rnstypes.NewMsgBid(b, "beta.jkl", sdk.NewInt64Coin("ujkl", 6))
	case "ParamsZeroSecond", "ParamsAltSecond":
		ok := true
		env.Mutate(func(ctx sdk.Context) {
			defer func() {
				if r := recover(); r != nil {
					panic(fmt.Sprintf("harness: parameter set rejected by the parameter store: %v", r))
				}
			}()
			sp := w.App.StorageKeeper.GetParams(ctx)
			mp := w.App.MintKeeper.GetParams(ctx)
			if p[0] == "ParamsZeroSecond" {
				sp.PolRatio, sp.ReferralCommission, sp.AttestMinToPass = 0, 0, 0
				mp.MintDecrease = 0
			} else {
				sp.PolRatio, sp.ReferralCommission, sp.ProofWindow, sp.CheckWindow, sp.ChunkSize, sp.PricePerTbPerMonth, sp.CollateralPrice = 1, 99, 7, 11, 5, 9, 2
				mp.TokensPerBlock, mp.MintDecrease = 7, 1
			}
			if sp.Validate() != nil || mp.Validate() != nil {
				ok = false
				return
			}
			w.App.StorageKeeper.SetParams(ctx, sp)
			w.App.MintKeeper.SetParams(ctx, mp)
		})
		return ok
	case "KeybaseSecond":
		msg = storagetypes.NewMsgSetProviderKeybase(w.A("P1").Bech, strings.Repeat("k", 63)+"\u00e9\u00e9 and then some more text to be well over the limit")
	case "DeleteFileSecond":
		msg = storagetypes.NewMsgDeleteFile(u, f.merkle, m.Start)
	case "AddRecordSecond":
		msg = rnstypes.NewMsgAddRecord(u, "alpha.jkl", "aaa", u, "{}")
	case "BuyStorageSecond":
		msg = storagetypes.NewMsgBuyStorage(b, b, 60, 2_000_000_000, "ujkl")
	case "AttReqSecond":
		msg = storagetypes.NewMsgRequestAttestationForm(w.A("P2").Bech, f.merkle, u, m.Start)
	case "RepReqSecond":
		msg = storagetypes.NewMsgRequestReportForm(u, w.A("P1").Bech, f.merkle, u, m.Start)
	case "CreateFeedSecond":
		msg = oracletypes.NewMsgCreateFeed(u, "jklprice2")
	case "Proof":
		item, hl := f.proofFor(0)
		msg = storagetypes.NewMsgPostProof(w.A(p[1]).Bech, f.merkle, u, m.Start, item, hl, 0)
	case "AttReq":
		msg = storagetypes.NewMsgRequestAttestationForm(w.A("P1").Bech, f.merkle, u, m.Start)
	case "RepReq":
		msg = storagetypes.NewMsgRequestReportForm(u, w.A("P2").Bech, f.merkle, u, m.Start)
	case "Register":
		msg = rnstypes.NewMsgRegisterName(u, "alpha.jkl", 1, "{}", true)
	case "AddRecord":
		msg = rnstypes.NewMsgAddRecord(u, "alpha.jkl", "sub", u, "{}")
	case "Bid":
		msg = rnstypes.NewMsgBid(b, "alpha.jkl", sdk.NewInt64Coin("ujkl", 5))
	case "List":
		msg = rnstypes.NewMsgList(u, "alpha.jkl", sdk.NewInt64Coin("ujkl", 9))
	case "RnsInit":
		msg = rnstypes.NewMsgInit(b)
	case "Provision":
		msg = fttypes.NewMsgProvisionFileTree(u, jmap(map[string]string{ftEditorID(c10Track, u): "k"}), jmap(map[string]string{ftViewerID(c10Track, u): "k"}), c10Track)
	case "PostKey":
		msg = fttypes.NewMsgPostKey(u, "pubkey-of-u")
	case "FtPost":
		msg = fttypes.NewMsgPostFile(u, ftAcct(u), ftMerkle("s"), hexsha("c1"), "c", "{}", "{}", c10Track)
	case "CreateFeed":
		msg = oracletypes.NewMsgCreateFeed(u, "jklprice")
	case "Notify":
		msg = notiftypes.NewMsgCreateNotification(b, u, `{"m":1}`, nil)
	case "Block":
		msg = notiftypes.NewMsgBlockSenders(u, b)
	}
	res := env.Deliver(msg)
	if p[0] == "Proof" {
		ok, _ := postProofOK(w, res)
		return ok
	}
	return res.OK()
}

var c19Targets = sync.Pool{New: func() interface{} { return world.New(c19Config()).NewEnvA() }}

func c19Prefix(store string, key []byte) string {
	k := string(key)
	if store == minttypes.StoreKey {
		return strings.TrimRight(strings.TrimSuffix(strings.TrimRight(k, "0123456789"), "minted_at_"), "/")
	}
	if i := strings.Index(k, "/value/"); i >= 0 {
		return k[:i+7]
	}
	if store == notiftypes.StoreKey && strings.HasPrefix(k, notiftypes.NotificationsKeyPrefix) {
		if strings.Count(k[len(notiftypes.NotificationsKeyPrefix):], "/") < 2 {
			return notiftypes.NotificationsKeyPrefix + "<block record>"
		}
		return notiftypes.NotificationsKeyPrefix
	}
	if i := strings.Index(k, "/"); i >= 0 {
		return k[:i+1]
	}
	return k
}

// c19ModuleRoundTrip exports every custom module from ctx, validates, imports into a fresh node's branch, compares.
func c19ModuleRoundTrip(w *world.World, ctx sdk.Context) (vs []mc.Viol, kinds int) {
	target := c19Targets.Get().(*world.EnvA)
	defer c19Targets.Put(target)
	tw := target.W()
	tctx := target.Fork().Ctx()
	cdc := w.Cdc()
	type mod struct {
		store     string
		roundTrip func() (first, second []byte, err error)
	}
	mods := []mod{
		{"storage", func() ([]byte, []byte, error) {
			g := storage.ExportGenesis(ctx, w.App.StorageKeeper)
			bz := cdc.MustMarshalJSON(g)
			var g2 storagetypes.GenesisState
			if err := cdc.UnmarshalJSON(bz, &g2); err != nil {
				return nil, nil, err
			}
			if err := g2.Validate(); err != nil {
				return nil, nil, err
			}
			storage.InitGenesis(tctx, tw.App.StorageKeeper, g2)
			return bz, cdc.MustMarshalJSON(storage.ExportGenesis(tctx, tw.App.StorageKeeper)), nil
		}},
		{"rns", func() ([]byte, []byte, error) {
			g := rns.ExportGenesis(ctx, w.App.RnsKeeper)
			bz := cdc.MustMarshalJSON(g)
			var g2 rnstypes.GenesisState
			if err := cdc.UnmarshalJSON(bz, &g2); err != nil {
				return nil, nil, err
			}
			if err := g2.Validate(); err != nil {
				return nil, nil, err
			}
			rns.InitGenesis(tctx, tw.App.RnsKeeper, g2)
			return bz, cdc.MustMarshalJSON(rns.ExportGenesis(tctx, tw.App.RnsKeeper)), nil
		}},
		{"filetree", func() ([]byte, []byte, error) {
			g := filetree.ExportGenesis(ctx, w.App.FileTreeKeeper)
			bz := cdc.MustMarshalJSON(g)
			var g2 fttypes.GenesisState
			if err := cdc.UnmarshalJSON(bz, &g2); err != nil {
				return nil, nil, err
			}
			if err := g2.Validate(); err != nil {
				return nil, nil, err
			}
			filetree.InitGenesis(tctx, tw.App.FileTreeKeeper, g2)
			return bz, cdc.MustMarshalJSON(filetree.ExportGenesis(tctx, tw.App.FileTreeKeeper)), nil
		}},
		{"oracle", func() ([]byte, []byte, error) {
			g := oracle.ExportGenesis(ctx, w.App.OracleKeeper)
			bz := cdc.MustMarshalJSON(g)
			var g2 oracletypes.GenesisState
			if err := cdc.UnmarshalJSON(bz, &g2); err != nil {
				return nil, nil, err
			}
			if err := g2.Validate(); err != nil {
				return nil, nil, err
			}
			oracle.InitGenesis(tctx, tw.App.OracleKeeper, g2)
			return bz, cdc.MustMarshalJSON(oracle.ExportGenesis(tctx, tw.App.OracleKeeper)), nil
		}},
		{notiftypes.StoreKey, func() ([]byte, []byte, error) {
			g := notifications.ExportGenesis(ctx, w.App.NotificationsKeeper)
			bz := cdc.MustMarshalJSON(g)
			var g2 notiftypes.GenesisState
			if err := cdc.UnmarshalJSON(bz, &g2); err != nil {
				return nil, nil, err
			}
			if err := g2.Validate(); err != nil {
				return nil, nil, err
			}
			notifications.InitGenesis(tctx, tw.App.NotificationsKeeper, g2)
			return bz, cdc.MustMarshalJSON(notifications.ExportGenesis(tctx, tw.App.NotificationsKeeper)), nil
		}},
		{minttypes.StoreKey, func() ([]byte, []byte, error) {
			g := jklmint.ExportGenesis(ctx, w.App.MintKeeper)
			bz := cdc.MustMarshalJSON(g)
			var g2 minttypes.GenesisState
			if err := cdc.UnmarshalJSON(bz, &g2); err != nil {
				return nil, nil, err
			}
			if err := g2.Validate(); err != nil {
				return nil, nil, err
			}
			jklmint.InitGenesis(tctx, tw.App.MintKeeper, g2)
			return bz, cdc.MustMarshalJSON(jklmint.ExportGenesis(tctx, tw.App.MintKeeper)), nil
		}},
	}
	baseline := map[string]map[string]bool{}
	for _, m := range mods {
		baseline[m.store] = map[string]bool{}
		for _, kv := range tw.DumpStore(tctx, m.store) {
			baseline[m.store][string(kv.K)] = true
		}
	}
	for _, m := range mods {
		var first, second []byte
		var err error
		func() {
			defer func() {
				if r := recover(); r != nil {
					err = fmt.Errorf("panic: %v", r)
				}
			}()
			first, second, err = m.roundTrip()
		}()
		if err != nil {
			vs = append(vs, viol("export-validates-and-imports", "store="+m.store, "module %s: export/validate/import failed: %v", m.store, err))
			continue
		}
		if !bytes.Equal(first, second) {
			vs = append(vs, viol("exporting-again-yields-the-same-genesis", "store="+m.store, "module %s: the genesis exported after import differs from the one imported", m.store))
		}
		vs = append(vs, c19CompareStore(w, ctx, tw, tctx, m.store, "module-level", &kinds, baseline[m.store])...)
	}
	// the governance parameters of every module are part of its state (they live in the params store, not the module's)
	for _, pr := range []struct{ mod, src, dst string }{
		{"storage", fmt.Sprintf("%+v", w.App.StorageKeeper.GetParams(ctx)), fmt.Sprintf("%+v", tw.App.StorageKeeper.GetParams(tctx))},
		{"rns", fmt.Sprintf("%+v", w.App.RnsKeeper.GetParams(ctx)), fmt.Sprintf("%+v", tw.App.RnsKeeper.GetParams(tctx))},
		{"filetree", fmt.Sprintf("%+v", w.App.FileTreeKeeper.GetParams(ctx)), fmt.Sprintf("%+v", tw.App.FileTreeKeeper.GetParams(tctx))},
		{"oracle", fmt.Sprintf("%+v", w.App.OracleKeeper.GetParams(ctx)), fmt.Sprintf("%+v", tw.App.OracleKeeper.GetParams(tctx))},
		{"notifications", fmt.Sprintf("%+v", w.App.NotificationsKeeper.GetParams(ctx)), fmt.Sprintf("%+v", tw.App.NotificationsKeeper.GetParams(tctx))},
		{"jklmint", fmt.Sprintf("%+v", w.App.MintKeeper.GetParams(ctx)), fmt.Sprintf("%+v", tw.App.MintKeeper.GetParams(tctx))},
	} {
		kinds++
		if pr.src != pr.dst {
			vs = append(vs, viol("every-record-readable-before-is-readable-after", "params-changed module="+pr.mod, "module %s: parameters before export %q, after import %q", pr.mod, pr.src, pr.dst))
		}
	}
	return vs, kinds
}

// baseline: the keys the target held before the import (module-level: a fresh node's own default state); nil = none.
func c19CompareStore(w *world.World, ctx sdk.Context, tw *world.World, tctx sdk.Context, store, level string, kinds *int, baseline map[string]bool) []mc.Viol {
	var vs []mc.Viol
	after := map[string][]byte{}
	for _, kv := range tw.DumpStore(tctx, store) {
		after[string(kv.K)] = kv.V
	}
	// records that exist only after the import: allowed only for indexes the import materialises (ActiveProviders)
	srcKeys := map[string]bool{}
	for _, kv := range w.DumpStore(ctx, store) {
		srcKeys[string(kv.K)] = true
	}
	spurious := map[string]int{}
	spuriousEx := map[string]string{}
	for k := range after {
		if srcKeys[k] || baseline[k] {
			continue
		}
		pfx := c19Prefix(store, []byte(k))
		if store == "storage" && strings.HasPrefix(pfx, "ActiveProviders") {
			continue
		}
		spurious[pfx]++
		if spuriousEx[pfx] == "" || k < spuriousEx[pfx] {
			spuriousEx[pfx] = k
		}
	}
	for _, pfx := range world.SortedKeys(spurious) {
		vs = append(vs, viol("import-adds-no-record-of-its-own", fmt.Sprintf("spurious store=%s prefix=%s", store, pfx),
			"%s: %d records under %s:%s exist after export -> import that the exporting node did not hold (e.g. %q)", level, spurious[pfx], store, pfx, spuriousEx[pfx]))
	}
	missing := map[string]int{}
	changed := map[string]int{}
	total := map[string]int{}
	example := map[string]string{}
	for _, kv := range w.DumpStore(ctx, store) {
		pfx := c19Prefix(store, kv.K)
		total[pfx]++
		v, ok := after[string(kv.K)]
		if !ok {
			missing[pfx]++
			example[pfx] = string(kv.K)
		} else if !bytes.Equal(v, kv.V) {
			changed[pfx]++
			example[pfx] = string(kv.K)
		}
	}
	*kinds += len(total)
	for _, pfx := range world.SortedKeys(missing) {
		vs = append(vs, viol("every-record-readable-before-is-readable-after", fmt.Sprintf("not-preserved store=%s prefix=%s", store, pfx),
			"%s: %d of %d records under %s:%s are missing after export -> import (e.g. %q)", level, missing[pfx], total[pfx], store, pfx, example[pfx]))
	}
	for _, pfx := range world.SortedKeys(changed) {
		vs = append(vs, viol("every-record-readable-before-is-readable-after", fmt.Sprintf("value-changed store=%s prefix=%s", store, pfx),
			"%s: %d of %d records under %s:%s have a different value after export -> import (e.g. %q)", level, changed[pfx], total[pfx], store, pfx, example[pfx]))
	}
	return vs
}

func (C19) Apply(env world.Env, mm mc.Model, ev string) mc.Step {
	w := env.W()
	m := mm.(c19Model)
	m.Done = append([]string{}, m.Done...)
	at := map[string]int{}
	for k, v := range m.At {
		at[k] = v
	}
	m.At = at
	st := mc.Step{Outcome: "rejected"}
	if ev == "NextBlock" {
		if bp := env.NextBlock(6 * time.Second); bp != nil {
			st.Viols = append(st.Viols, viol("no-panic", "block-panic", "%s", bp.Value))
		}
		m.Blocks++
		st.Outcome = "block"
	} else {
		if c19Do(env, &m, ev) {
			st.Outcome = "ok"
		}
		m.Done = append(m.Done, ev)
		sort.Strings(m.Done)
		m.At[ev] = m.Blocks
	}
	vs, kinds := c19ModuleRoundTrip(w, env.Ctx())
	st.Exercised = append(st.Exercised, "round-trip")
	for i := 0; i < kinds; i++ {
		st.Exercised = append(st.Exercised, "record-kind-compared")
	}
	st.Viols = append(st.Viols, vs...)
	st.Model = m
	return st
}

// c19NodeLevel replays histories at the ABCI seam, commits, exports the whole application state and initialises a
// fresh node from it.
func c19NodeLevel(r *mc.Run, paths [][]string) {
	ok := 0
	found := map[string]mc.Record{}
	for _, path := range paths {
		_, eb, _, err := mc.ReplayB(C19{}, path)
		if err != nil {
			r.Harness = append(r.Harness, "C19 node-level replay: "+err.Error())
			continue
		}
		w := eb.W()
		t := eb.Ctx().BlockTime()
		eb.Finish()
		exp, err := w.App.ExportAppStateAndValidators(false, nil)
		if err != nil {
			found["export-failed"] = mc.Record{Clause: "export-validates-and-imports", Signature: "export-validates-and-imports:node-level-export", Detail: err.Error(), Path: path}
			continue
		}
		var vals []tmtypes.GenesisValidator
		vals = append(vals, exp.Validators...)
		nw, pan := world.NewFromGenesis(exp.AppState, vals, exp.Height, t)
		if pan != nil {
			found["import-failed"] = mc.Record{Clause: "export-validates-and-imports", Signature: "export-validates-and-imports:node-level-init-chain", Detail: fmt.Sprintf("InitChain from the exported state panicked: %v", pan), Path: path}
			continue
		}
		src := sdk.NewContext(w.App.CommitMultiStore().CacheMultiStore(), w.Header(exp.Height-1, t), false, log.NewNopLogger())
		dst := sdk.NewContext(nw.App.CommitMultiStore().CacheMultiStore(), nw.Header(exp.Height, t), false, log.NewNopLogger())
		kinds := 0
		clean := true
		for _, s := range c19Stores {
			for _, v := range c19CompareStore(w, src, nw, dst, s, "node-level", &kinds, nil) {
				clean = false
				if _, dup := found[v.Sig]; !dup {
					found[v.Sig] = mc.Record{Clause: v.Clause, Signature: v.Sig, Detail: v.Detail, Path: path}
				}
			}
		}
		exp2, err := nw.App.ExportAppStateAndValidators(false, nil)
		if err == nil && !bytes.Equal(exp2.AppState, exp.AppState) {
			// only the custom modules' sections are compared
			for _, mod := range []string{"storage", "rns", "filetree", "oracle", "notifications", "jklmint"} {
				a, b := jsonSection(exp.AppState, mod), jsonSection(exp2.AppState, mod)
				if a != b {
					sig := "exporting-again-yields-the-same-genesis:store=" + mod
					if mod == "notifications" {
						sig = "exporting-again-yields-the-same-genesis:store=" + notiftypes.StoreKey
					}
					if _, dup := found[sig]; !dup {
						found[sig] = mc.Record{Clause: "exporting-again-yields-the-same-genesis", Signature: sig, Detail: "node-level: second export of module " + mod + " differs", Path: path}
					}
					clean = false
				}
			}
		}
		if clean {
			ok++
		}
	}
	r.Traces += len(paths)
	r.Sub = append(r.Sub, map[string]interface{}{"part": "node-level export -> InitChain on a fresh node (seam B)", "histories": len(paths), "clean": ok})
	for _, sig := range world.SortedKeys(found) {
		rec := found[sig]
		rec.Property, rec.Scenario, rec.Kind = "C19", "C19/export-import", "history"
		r.Report(rec)
	}
}

// ---- volume: more records of a kind than one page of the SDK's paginated store walk (100) ----

func c19VolumeEnum() mc.Enum {
	cfg := c19Config()
	cfg.Accounts = append(append([]string{}, cfg.Accounts...), c15VolumeAccounts(130)...)
	e := mc.Enum{Prop: "C19", Name: "C19/export-import-volume", Cfg: cfg}
	kinds := []string{"pubkeys", "providers", "names", "bids", "feeds", "notifications", "plans", "filetree-roots", "files"}
	for _, kind := range append(kinds, "all") {
		kind := kind
		e.Cases = append(e.Cases, mc.Case{Desc: "130 x " + kind, Run: func(env world.Env) mc.CaseResult {
			w := env.W()
			u := w.A("U").Bech
			cr := mc.CaseResult{Class: "round-trip", Nontrivial: true}
			on := func(k string) bool { return kind == k || kind == "all" }
			if on("bids") {
				mustOK(env.Deliver(rnstypes.NewMsgRegisterName(u, "alpha.jkl", 1, "{}", true)), "register")
			}
			if on("files") {
				mustOK(env.Deliver(storagetypes.NewMsgBuyStorage(u, u, 30, 1_000_000_000, "ujkl")), "plan")
			}
			for i, v := range c15VolumeAccounts(130) {
				a := w.A(v).Bech
				if on("pubkeys") {
					mustOK(env.Deliver(fttypes.NewMsgPostKey(a, "pubkey-of-"+v)), "PostKey")
				}
				if on("providers") {
					mustOK(env.Deliver(storagetypes.NewMsgInitProvider(a, fmt.Sprintf("https://node%d.volume.com", i), 1000, "kb")), "InitProvider")
				}
				if on("names") {
					mustOK(env.Deliver(rnstypes.NewMsgRegisterName(a, fmt.Sprintf("name%03d.jkl", i), 1, "{}", false)), "RegisterName")
				}
				if on("bids") {
					mustOK(env.Deliver(rnstypes.NewMsgBid(a, "alpha.jkl", sdk.NewInt64Coin("ujkl", int64(5+i)))), "Bid")
				}
				if on("feeds") {
					mustOK(env.Deliver(oracletypes.NewMsgCreateFeed(a, fmt.Sprintf("feed%03d", i))), "CreateFeed")
				}
				if on("notifications") {
					mustOK(env.Deliver(notiftypes.NewMsgCreateNotification(a, u, fmt.Sprintf(`{"m":%d}`, i), nil)), "Notify")
				}
				if on("plans") {
					mustOK(env.Deliver(storagetypes.NewMsgBuyStorage(a, a, 30, int64(1_000_000_000+i), "ujkl")), "BuyStorage")
				}
				if on("filetree-roots") {
					mustOK(env.Deliver(fttypes.NewMsgProvisionFileTree(a, jmap(map[string]string{ftEditorID(c10Track, a): "k"}), jmap(map[string]string{ftViewerID(c10Track, a): "k"}), c10Track)), "Provision")
				}
				if on("files") {
					f := mkFile(seqBytes(12, byte(i)), 4)
					mustOK(env.Deliver(storagetypes.NewMsgPostFile(u, f.merkle, 12, 0, 0, 1, fmt.Sprintf(`{"n":%d}`, i))), "PostFile")
				}
			}
			vs, _ := c19ModuleRoundTrip(w, env.Ctx())
			cr.Viols = vs
			return cr
		}})
	}
	return e
}

// c19Exotic are field contents that stateless validation and the handlers may accept although no client sends them.
var c19Exotic = []string{"*", "b\u00fcro", "mail.dev", " ", "a/b", `q"uote`, "<b>x</b>", "%d%x", "UPPER", "tab\there", strings.Repeat("long", 80)}

// c19ContentsEnum: one record whose free-text field holds an unusual value, for every free-text field a transaction can
// set, followed by the full export -> validate -> import -> export round trip. A value the message refuses is no case.
func c19ContentsEnum() mc.Enum {
	e := mc.Enum{Prop: "C19", Name: "C19/export-import-contents", Cfg: c19Config()}
	type field struct {
		name string
		prep func(env world.Env, u, b string)
		msg  func(u, b, v string) sdk.Msg
	}
	regName := func(env world.Env, u, b string) {
		mustOK(env.Deliver(rnstypes.NewMsgRegisterName(u, "alpha.jkl", 1, "{}", true)), "register")
	}
	provision := func(env world.Env, u, b string) {
		mustOK(env.Deliver(fttypes.NewMsgProvisionFileTree(u, jmap(map[string]string{ftEditorID(c10Track, u): "k"}), jmap(map[string]string{ftViewerID(c10Track, u): "k"}), c10Track)), "provision")
	}
	plan := func(env world.Env, u, b string) {
		mustOK(env.Deliver(storagetypes.NewMsgBuyStorage(u, u, 30, 1_000_000_000, "ujkl")), "plan")
	}
	provider := func(env world.Env, u, b string) {
		mustOK(env.Deliver(storagetypes.NewMsgInitProvider(b, "https://node.one.com", 1000, "kb")), "InitProvider")
	}
	f := mkFile(seqBytes(12, 7), 4)
	fields := []field{
		{"rns-record-label", regName, func(u, b, v string) sdk.Msg { return rnstypes.NewMsgAddRecord(u, "alpha.jkl", v, u, "{}") }},
		{"rns-record-data", regName, func(u, b, v string) sdk.Msg { return rnstypes.NewMsgAddRecord(u, "alpha.jkl", "sub", u, v) }},
		{"rns-record-value", regName, func(u, b, v string) sdk.Msg { return rnstypes.NewMsgAddRecord(u, "alpha.jkl", "sub", v, "{}") }},
		{"rns-name-data", nil, func(u, b, v string) sdk.Msg { return rnstypes.NewMsgRegisterName(u, "beta.jkl", 1, v, false) }},
		{"rns-update-data", regName, func(u, b, v string) sdk.Msg { return rnstypes.NewMsgUpdate(u, "alpha.jkl", v) }},
		{"notification-contents", nil, func(u, b, v string) sdk.Msg {
			return notiftypes.NewMsgCreateNotification(b, u, jmap(map[string]string{v: v}), nil)
		}},
		{"oracle-feed-name", nil, func(u, b, v string) sdk.Msg { return oracletypes.NewMsgCreateFeed(u, v) }},
		{"filetree-public-key", nil, func(u, b, v string) sdk.Msg { return fttypes.NewMsgPostKey(u, v) }},
		{"filetree-contents", provision, func(u, b, v string) sdk.Msg {
			return fttypes.NewMsgPostFile(u, ftAcct(u), ftMerkle("s"), hexsha("c1"), v, "{}", "{}", c10Track)
		}},
		{"filetree-tracking-number", nil, func(u, b, v string) sdk.Msg {
			return fttypes.NewMsgProvisionFileTree(u, jmap(map[string]string{ftEditorID(v, u): "k"}), jmap(map[string]string{ftViewerID(v, u): "k"}), v)
		}},
		{"filetree-access-key", nil, func(u, b, v string) sdk.Msg {
			return fttypes.NewMsgProvisionFileTree(u, jmap(map[string]string{ftEditorID(c10Track, u): v}), jmap(map[string]string{ftViewerID(c10Track, u): v}), c10Track)
		}},
		{"storage-file-note", plan, func(u, b, v string) sdk.Msg {
			return storagetypes.NewMsgPostFile(u, f.merkle, 12, 0, 0, 1, jmap(map[string]string{v: v}))
		}},
		{"storage-provider-keybase", nil, func(u, b, v string) sdk.Msg {
			return storagetypes.NewMsgInitProvider(b, "https://node.one.com", 1000, v)
		}},
		{"storage-provider-ip", nil, func(u, b, v string) sdk.Msg {
			return storagetypes.NewMsgInitProvider(b, "https://"+v+".com/"+v, 1000, "kb")
		}},
		{"storage-provider-new-keybase", provider, func(u, b, v string) sdk.Msg { return storagetypes.NewMsgSetProviderKeybase(b, v) }},
		{"storage-provider-claimer", provider, func(u, b, v string) sdk.Msg { return storagetypes.NewMsgAddClaimer(b, u) }},
	}
	for _, fl := range fields {
		for _, v := range c19Exotic {
			fl, v := fl, v
			e.Cases = append(e.Cases, mc.Case{Desc: fmt.Sprintf("%s=%q", fl.name, clip(v, 24)), Run: func(env world.Env) mc.CaseResult {
				w := env.W()
				u, b := w.A("U").Bech, w.A("B").Bech
				if fl.prep != nil {
					fl.prep(env, u, b)
				}
				if !env.Deliver(fl.msg(u, b, v)).OK() {
					return mc.CaseResult{Class: "refused/" + fl.name}
				}
				vs, _ := c19ModuleRoundTrip(w, env.Ctx())
				return mc.CaseResult{Class: "round-trip/" + fl.name, Nontrivial: true, Viols: vs}
			}})
		}
	}
	return e
}

func clip(s string, n int) string {
	if len(s) > n {
		return s[:n] + "..."
	}
	return s
}

func jsonSection(app []byte, module string) string {
	var m map[string]interface{}
	if err := json.Unmarshal(app, &m); err != nil {
		return ""
	}
	return string(jkey(m[module]))
}

func init() {
	regScenario(C19{})
	regScenario(C19{Deep: true})
	CaseReplayers["C19/export-import-volume"] = func(r *mc.Run, c string) { r.ReplayCase(c19VolumeEnum(), c) }
	CaseReplayers["C19/export-import-contents"] = func(r *mc.Run, c string) { r.ReplayCase(c19ContentsEnum(), c) }
	Props["C19"] = Prop{Level: "model_checking", Run: func(r *mc.Run, tier string) {
		r.Rules = append(r.Rules, "BFS over one event per record kind of the six custom modules (provider, collateral, plan+gauge, file, proofs, attestation form, report form; name+primary name, sub-record, bid, listing, init; file-tree root, pubkey, entry; feed; notification, block; minted blocks via NextBlock) in every order allowed by their prerequisites; in every reached state each module is exported, JSON round-tripped, validated and imported into a branch of a fresh node and every (key, value) of its store is compared by record kind, and the export is repeated; selected histories are additionally committed at the ABCI seam, exported with ExportAppStateAndValidators and imported by InitChain on a fresh node")
		r.Assumptions = append(r.Assumptions, "a superset after import is allowed (e.g. materialised ActiveProviders)", "violations are keyed by (module store, record-kind prefix)")
		res := r.AddExplore(C19{}, opts(tier, 5, 9, 50, 1200, 20, 200))
		r.Rules = append(r.Rules, "second-instance variant: from a state holding one record of every kind, BFS over the events that add a second instance (same file in a later block, second notification, name, bid, feed, plan+gauge, attestation form, report form) and NextBlock, same round-trip oracle; a record that exists only after the import is a violation unless it is a materialised ActiveProviders entry")
		r.AddExplore(C19{Deep: true}, opts(tier, 4, 9, 40, 600, 20, 100))
		r.Rules = append(r.Rules, "volume: 130 records of each kind (public keys, providers+collateral, names, bids, feeds, notifications, plans+gauges, file-tree roots, files), one kind at a time and all together, then the same round trip (one page of a paginated store walk holds 100)")
		r.AddEnum(c19VolumeEnum(), workers(), time.Time{})
		r.Rules = append(r.Rules, "contents: for each of 16 free-text fields a transaction can set (record label, data and value of a name, notification contents and file note as JSON keys and values, feed name, public key, file-tree contents, tracking number and access keys, file note, provider address, identity and claimer) x 11 unusual values (wildcard, non-ASCII, dotted, blank, slash, quote, markup, format verbs, capitals, tab, 320 bytes): where the message is accepted, the full export -> validate -> import -> export round trip")
		r.AddEnum(c19ContentsEnum(), workers(), time.Time{})
		paths := [][]string{}
		all := []string{}
		for _, k := range c19Kinds {
			all = append(all, k.name)
		}
		var first, again []string
		for _, e := range all {
			if c19IsSecond(e) {
				again = append(again, e)
			} else {
				first = append(first, e)
			}
		}
		all = append(append(append(first, "NextBlock"), again...), "NextBlock")
		paths = append(paths, all, all[:8], all[8:13], []string{"BuyStorage", "PostFile", "NextBlock", "PostFileAgain"})
		if tier == "thorough" {
			for i := 1; i < len(all); i += 2 {
				paths = append(paths, all[:i])
			}
		}
		_ = res
		c19NodeLevel(r, paths)
	}}
}
