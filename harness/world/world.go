// Package world builds a real canine-chain node (app.NewJackalApp over a MemDB) with a deterministic
// genesis and offers two execution seams onto it: the handler seam (EnvA, branched contexts) and the ABCI
// seam (EnvB, signed transactions through BeginBlock/DeliverTx/EndBlock/Commit).
package world

import (
	"crypto/sha256"
	"encoding/json"
	"fmt"
	"os"
	"sort"
	"strings"
	"sync"
	"time"

	"github.com/CosmWasm/wasmd/x/wasm"
	wasmtypes "github.com/CosmWasm/wasmd/x/wasm/types"
	"github.com/cosmos/cosmos-sdk/codec"
	codectypes "github.com/cosmos/cosmos-sdk/codec/types"
	cryptocodec "github.com/cosmos/cosmos-sdk/crypto/codec"
	"github.com/cosmos/cosmos-sdk/crypto/keys/ed25519"
	"github.com/cosmos/cosmos-sdk/crypto/keys/secp256k1"
	cryptotypes "github.com/cosmos/cosmos-sdk/crypto/types"
	"github.com/cosmos/cosmos-sdk/store/rootmulti"
	storetypes "github.com/cosmos/cosmos-sdk/store/types"
	sdk "github.com/cosmos/cosmos-sdk/types"
	authtypes "github.com/cosmos/cosmos-sdk/x/auth/types"
	banktypes "github.com/cosmos/cosmos-sdk/x/bank/types"
	slashingtypes "github.com/cosmos/cosmos-sdk/x/slashing/types"
	stakingtypes "github.com/cosmos/cosmos-sdk/x/staking/types"
	abci "github.com/tendermint/tendermint/abci/types"
	"github.com/tendermint/tendermint/libs/log"
	tmproto "github.com/tendermint/tendermint/proto/tendermint/types"
	tmtypes "github.com/tendermint/tendermint/types"
	dbm "github.com/tendermint/tm-db"

	"github.com/jackalLabs/canine-chain/v4/app"
	minttypes "github.com/jackalLabs/canine-chain/v4/x/jklmint/types"
	oracletypes "github.com/jackalLabs/canine-chain/v4/x/oracle/types"
	storagetypes "github.com/jackalLabs/canine-chain/v4/x/storage/types"
)

const ChainID = "verif-1"

var GenesisTime = time.Date(2026, 1, 1, 0, 0, 0, 0, time.UTC)

var prefixOnce sync.Once

func SetPrefixes() {
	prefixOnce.Do(func() {
		cfg := sdk.GetConfig()
		cfg.SetBech32PrefixForAccount(app.Bech32PrefixAccAddr, app.Bech32PrefixAccPub)
		cfg.SetBech32PrefixForValidator(app.Bech32PrefixValAddr, app.Bech32PrefixValPub)
		cfg.SetBech32PrefixForConsensusNode(app.Bech32PrefixConsAddr, app.Bech32PrefixConsPub)
		cfg.SetAddressVerifier(wasmtypes.VerifyAddressLen())
	})
}

// Acct is a funded genesis account with a deterministic key.
type Acct struct {
	Name string
	Priv cryptotypes.PrivKey
	Addr sdk.AccAddress
	Bech string
}

func MakeAcct(name string) Acct {
	SetPrefixes()
	seed := sha256.Sum256([]byte("verif-acct-" + name))
	priv := &secp256k1.PrivKey{Key: seed[:]}
	addr := sdk.AccAddress(priv.PubKey().Address())
	return Acct{Name: name, Priv: priv, Addr: addr, Bech: addr.String()}
}

var minedMu sync.Mutex
var mined = map[string]string{}

// MineAcctName returns the first account name prefix+i (i = 0, 1, ...) whose address string ends with the given suffix.
// Deterministic; about 32^len(suffix) candidates are tried.
func MineAcctName(prefix, suffix string) string {
	minedMu.Lock()
	defer minedMu.Unlock()
	if n, ok := mined[prefix+"|"+suffix]; ok {
		return n
	}
	for i := 0; ; i++ {
		n := fmt.Sprintf("%s%d", prefix, i)
		if strings.HasSuffix(MakeAcct(n).Bech, suffix) {
			mined[prefix+"|"+suffix] = n
			return n
		}
	}
}

// Config describes a deterministic genesis.
type Config struct {
	Accounts []string             // account names; each funded with Balance
	Balance  sdk.Coins            // default: 10^15 ujkl + 10^12 uatom
	Balances map[string]sdk.Coins // per-account override
	Storage  func(p *storagetypes.Params)
	Mint     func(p *minttypes.Params)
	// GenesisMod may rewrite any module's genesis JSON before InitChain.
	GenesisMod func(cdc codec.JSONCodec, gs app.GenesisState)
	// FirstBlockIsInitial: no empty commit after InitChain - the first block the harness runs is InitialHeight itself,
	// as on a real chain (only EnvB supports it)
	FirstBlockIsInitial bool
	StartHeight         int64 // InitChain's InitialHeight; the first block the harness runs is StartHeight+1 (default 1 -> block 2)
}

type World struct {
	Cfg         Config
	App         *app.JackalApp
	Accts       map[string]Acct
	Order       []string
	ValAddr     []byte // consensus address of the genesis validator
	valSet      *tmtypes.ValidatorSet
	storeKeys   map[string]storetypes.StoreKey
	GenesisJSON []byte
	db          dbm.DB
	// BalancesPanic holds the panic message of the last failed balance walk (see Balances).
	BalancesPanic string
}

// Restart models a restart of the node's process at a block boundary: a new application object (new keepers, empty
// process memory) is built over the same database and loads the last committed version.
func (w *World) Restart() {
	a := app.NewJackalApp(log.NewNopLogger(), w.db, nil, true, map[int64]bool{}, "/nonexistent-verif-home", 0,
		app.MakeEncodingConfig(), wasm.EnableAllProposals, app.EmptyBaseAppOptions{}, nil)
	w.App = a
	w.storeKeys = map[string]storetypes.StoreKey{}
	for k := range a.CommitMultiStore().(*rootmulti.Store).GetStores() {
		w.storeKeys[k.Name()] = k
	}
}

func DefaultBalance() sdk.Coins {
	return sdk.NewCoins(sdk.NewInt64Coin("ujkl", 1_000_000_000_000_000), sdk.NewInt64Coin("uatom", 1_000_000_000_000))
}

// Muzzle redirects os.Stdout to /dev/null (BuyStorage prints debug lines) and returns the saved descriptor.
var muzzleOnce sync.Once
var Out *os.File = os.Stdout

func Muzzle() *os.File {
	muzzleOnce.Do(func() {
		Out = os.Stdout
		devnull, err := os.OpenFile("/dev/null", os.O_WRONLY, 0)
		if err == nil {
			os.Stdout = devnull
		}
	})
	return Out
}

func New(cfg Config) *World {
	SetPrefixes()
	w := &World{Cfg: cfg, Accts: map[string]Acct{}}
	db := dbm.NewMemDB()
	w.db = db
	a := app.NewJackalApp(log.NewNopLogger(), db, nil, true, map[int64]bool{}, "/nonexistent-verif-home", 0,
		app.MakeEncodingConfig(), wasm.EnableAllProposals, app.EmptyBaseAppOptions{}, nil)
	w.App = a
	w.GenesisJSON = w.buildGenesis()
	a.InitChain(abci.RequestInitChain{
		ChainId:         ChainID,
		Time:            GenesisTime,
		Validators:      []abci.ValidatorUpdate{},
		ConsensusParams: app.DefaultConsensusParams,
		AppStateBytes:   w.GenesisJSON,
		InitialHeight:   maxI64(1, cfg.StartHeight),
	})
	if !cfg.FirstBlockIsInitial {
		a.Commit()
	}
	w.storeKeys = map[string]storetypes.StoreKey{}
	for k := range a.CommitMultiStore().(*rootmulti.Store).GetStores() {
		w.storeKeys[k.Name()] = k
	}
	return w
}

func maxI64(a, b int64) int64 {
	if a > b {
		return a
	}
	return b
}

// NewFromGenesis builds a fresh node from an exported app state (used by C19 at the node level).
func NewFromGenesis(appState []byte, validators []tmtypes.GenesisValidator, initialHeight int64, t time.Time) (w *World, panicked interface{}) {
	SetPrefixes()
	w = &World{Accts: map[string]Acct{}}
	db := dbm.NewMemDB()
	a := app.NewJackalApp(log.NewNopLogger(), db, nil, true, map[int64]bool{}, "/nonexistent-verif-home", 0,
		app.MakeEncodingConfig(), wasm.EnableAllProposals, app.EmptyBaseAppOptions{}, nil)
	w.App = a
	defer func() {
		if r := recover(); r != nil {
			panicked = r
		}
	}()
	vals := []abci.ValidatorUpdate{}
	for _, v := range validators {
		vals = append(vals, tmtypes.TM2PB.ValidatorUpdate(tmtypes.NewValidator(v.PubKey, v.Power)))
	}
	a.InitChain(abci.RequestInitChain{
		ChainId:         ChainID,
		Time:            t,
		Validators:      vals,
		ConsensusParams: app.DefaultConsensusParams,
		AppStateBytes:   appState,
		InitialHeight:   initialHeight,
	})
	a.Commit()
	w.storeKeys = map[string]storetypes.StoreKey{}
	for k := range a.CommitMultiStore().(*rootmulti.Store).GetStores() {
		w.storeKeys[k.Name()] = k
	}
	return w, nil
}

func (w *World) A(name string) Acct {
	a, ok := w.Accts[name]
	if !ok {
		panic("unknown account " + name)
	}
	return a
}

func (w *World) NameOf(bech string) string {
	for _, n := range w.Order {
		if w.Accts[n].Bech == bech {
			return n
		}
	}
	return bech
}

func (w *World) StoreKey(name string) storetypes.StoreKey {
	k, ok := w.storeKeys[name]
	if !ok {
		panic("unknown store " + name)
	}
	return k
}

func (w *World) Cdc() codec.Codec { return w.App.AppCodec() }

func (w *World) buildGenesis() []byte {
	a := w.App
	cdc := a.AppCodec()
	gs := app.NewDefaultGenesisState()

	// accounts
	bal := w.Cfg.Balance
	if bal == nil {
		bal = DefaultBalance()
	}
	var genAccs []authtypes.GenesisAccount
	var balances []banktypes.Balance
	total := sdk.NewCoins()
	names := append([]string{"genval"}, w.Cfg.Accounts...)
	for _, n := range names {
		ac := MakeAcct(n)
		w.Accts[n] = ac
		w.Order = append(w.Order, n)
		genAccs = append(genAccs, authtypes.NewBaseAccount(ac.Addr, ac.Priv.PubKey(), 0, 0))
		b := bal
		if ob, ok := w.Cfg.Balances[n]; ok {
			b = ob
		}
		if !b.IsZero() {
			balances = append(balances, banktypes.Balance{Address: ac.Bech, Coins: b})
			total = total.Add(b...)
		}
	}
	gs[authtypes.ModuleName] = cdc.MustMarshalJSON(authtypes.NewGenesisState(authtypes.DefaultParams(), genAccs))

	// one bonded validator with a deterministic ed25519 key
	vseed := sha256.Sum256([]byte("verif-validator"))
	vpriv := ed25519.GenPrivKeyFromSecret(vseed[:])
	tmpk, err := cryptocodec.ToTmPubKeyInterface(vpriv.PubKey())
	if err != nil {
		panic(err)
	}
	val := tmtypes.NewValidator(tmpk, 1)
	w.valSet = tmtypes.NewValidatorSet([]*tmtypes.Validator{val})
	w.ValAddr = val.Address.Bytes()
	pkAny, err := codectypes.NewAnyWithValue(vpriv.PubKey())
	if err != nil {
		panic(err)
	}
	bondAmt := sdk.NewInt(1000000)
	validator := stakingtypes.Validator{
		OperatorAddress:   sdk.ValAddress(val.Address).String(),
		ConsensusPubkey:   pkAny,
		Jailed:            false,
		Status:            stakingtypes.Bonded,
		Tokens:            bondAmt,
		DelegatorShares:   sdk.OneDec(),
		Description:       stakingtypes.Description{},
		UnbondingHeight:   0,
		UnbondingTime:     time.Unix(0, 0).UTC(),
		Commission:        stakingtypes.NewCommission(sdk.ZeroDec(), sdk.ZeroDec(), sdk.ZeroDec()),
		MinSelfDelegation: sdk.ZeroInt(),
	}
	sp := stakingtypes.DefaultParams()
	sp.BondDenom = "ujkl"
	delegations := []stakingtypes.Delegation{stakingtypes.NewDelegation(w.Accts["genval"].Addr, val.Address.Bytes(), sdk.OneDec())}
	gs[stakingtypes.ModuleName] = cdc.MustMarshalJSON(stakingtypes.NewGenesisState(sp, []stakingtypes.Validator{validator}, delegations))
	bonded := sdk.NewCoins(sdk.NewCoin("ujkl", bondAmt))
	balances = append(balances, banktypes.Balance{Address: authtypes.NewModuleAddress(stakingtypes.BondedPoolName).String(), Coins: bonded})
	total = total.Add(bonded...)

	// slashing signing info for the genesis validator (a validator bonded directly in genesis gets none)
	var sl slashingtypes.GenesisState
	cdc.MustUnmarshalJSON(gs[slashingtypes.ModuleName], &sl)
	consAddr := sdk.ConsAddress(val.Address)
	sl.SigningInfos = append(sl.SigningInfos, slashingtypes.SigningInfo{
		Address:              consAddr.String(),
		ValidatorSigningInfo: slashingtypes.NewValidatorSigningInfo(consAddr, 0, 0, time.Unix(0, 0).UTC(), false, 0),
	})
	gs[slashingtypes.ModuleName] = cdc.MustMarshalJSON(&sl)

	gs[banktypes.ModuleName] = cdc.MustMarshalJSON(banktypes.NewGenesisState(banktypes.DefaultGenesisState().Params, balances, total, []banktypes.Metadata{}))

	// custom module params
	var st storagetypes.GenesisState
	cdc.MustUnmarshalJSON(gs[storagetypes.ModuleName], &st)
	if w.Cfg.Storage != nil {
		w.Cfg.Storage(&st.Params)
	}
	gs[storagetypes.ModuleName] = cdc.MustMarshalJSON(&st)

	var mg minttypes.GenesisState
	cdc.MustUnmarshalJSON(gs[minttypes.ModuleName], &mg)
	if w.Cfg.Mint != nil {
		w.Cfg.Mint(&mg.Params)
	}
	gs[minttypes.ModuleName] = cdc.MustMarshalJSON(&mg)

	// the oracle module's default Deposit param is a cosmos1... address, unusable on a jkl chain
	var og oracletypes.GenesisState
	cdc.MustUnmarshalJSON(gs[oracletypes.ModuleName], &og)
	og.Params.Deposit = MakeAcct("oracle-deposit").Bech
	gs[oracletypes.ModuleName] = cdc.MustMarshalJSON(&og)

	if w.Cfg.GenesisMod != nil {
		w.Cfg.GenesisMod(cdc, gs)
	}
	bz, err := json.Marshal(gs)
	if err != nil {
		panic(err)
	}
	return bz
}

// Header returns the block header used for height h at time t (same at both seams).
func (w *World) Header(h int64, t time.Time) tmproto.Header {
	return tmproto.Header{
		ChainID:         ChainID,
		Height:          h,
		Time:            t,
		ProposerAddress: w.ValAddr,
	}
}

// BeginReq is the RequestBeginBlock used at both seams: the genesis validator proposes and signs.
func (w *World) BeginReq(hdr tmproto.Header) abci.RequestBeginBlock {
	return abci.RequestBeginBlock{
		Header: hdr,
		LastCommitInfo: abci.LastCommitInfo{Votes: []abci.VoteInfo{{
			Validator:       abci.Validator{Address: w.ValAddr, Power: 1},
			SignedLastBlock: true,
		}}},
	}
}

// ---------------------------------------------------------------------------------------------
// store dumps

type KV struct{ K, V []byte }

// DumpStore returns all pairs of one store in key order.
func (w *World) DumpStore(ctx sdk.Context, name string) []KV {
	st := ctx.KVStore(w.StoreKey(name))
	it := st.Iterator(nil, nil)
	defer it.Close()
	var out []KV
	for ; it.Valid(); it.Next() {
		k := append([]byte{}, it.Key()...)
		v := append([]byte{}, it.Value()...)
		out = append(out, KV{k, v})
	}
	return out
}

// ClearStore deletes every record of the named store (used to restart one module from its exported genesis).
func (w *World) ClearStore(ctx sdk.Context, name string) {
	st := ctx.KVStore(w.StoreKey(name))
	for _, kv := range w.DumpStore(ctx, name) {
		st.Delete(kv.K)
	}
}

// HashStores hashes the named stores (sorted KV), the block height and time.
func (w *World) HashStores(ctx sdk.Context, names []string, extra []byte) [32]byte {
	h := sha256.New()
	var lb [8]byte
	put := func(b []byte) {
		n := len(b)
		for i := 0; i < 8; i++ {
			lb[i] = byte(n >> (8 * i))
		}
		h.Write(lb[:])
		h.Write(b)
	}
	for _, n := range names {
		put([]byte(n))
		st := ctx.KVStore(w.StoreKey(n))
		it := st.Iterator(nil, nil)
		for ; it.Valid(); it.Next() {
			put(it.Key())
			put(it.Value())
		}
		it.Close()
	}
	put([]byte(fmt.Sprintf("h=%d t=%d", ctx.BlockHeight(), ctx.BlockTime().UnixNano())))
	put(extra)
	var out [32]byte
	copy(out[:], h.Sum(nil))
	return out
}

// Balances returns every account balance (address -> coins string map, deterministic).
// Balances lists every balance of the bank module. If the bank module itself can no longer walk its balances (a
// record under an address it cannot decode, for instance), the result carries that fact under the key BalancesUnreadable.
func (w *World) Balances(ctx sdk.Context) (out map[string]sdk.Coins) {
	out = map[string]sdk.Coins{}
	defer func() {
		if r := recover(); r != nil {
			out[BalancesUnreadable] = sdk.NewCoins(sdk.NewInt64Coin("unreadable", 1))
			w.BalancesPanic = fmt.Sprint(r)
		}
	}()
	w.App.BankKeeper.IterateAllBalances(ctx, func(addr sdk.AccAddress, c sdk.Coin) bool {
		k := addr.String()
		out[k] = out[k].Add(c)
		return false
	})
	return out
}

// BalancesUnreadable: see Balances.
const BalancesUnreadable = "<the bank module cannot iterate its balances>"

func (w *World) Bal(ctx sdk.Context, addr sdk.AccAddress, denom string) sdk.Int {
	return w.App.BankKeeper.GetBalance(ctx, addr, denom).Amount
}

// BalDiff returns after-before per address/denom for all non-zero differences, keys sorted.
func BalDiff(before, after map[string]sdk.Coins) map[string]map[string]sdk.Int {
	out := map[string]map[string]sdk.Int{}
	addrs := map[string]bool{}
	for a := range before {
		addrs[a] = true
	}
	for a := range after {
		addrs[a] = true
	}
	for a := range addrs {
		denoms := map[string]bool{}
		for _, c := range before[a] {
			denoms[c.Denom] = true
		}
		for _, c := range after[a] {
			denoms[c.Denom] = true
		}
		for d := range denoms {
			diff := after[a].AmountOf(d).Sub(before[a].AmountOf(d))
			if !diff.IsZero() {
				if out[a] == nil {
					out[a] = map[string]sdk.Int{}
				}
				out[a][d] = diff
			}
		}
	}
	return out
}

func SortedKeys[V any](m map[string]V) []string {
	ks := make([]string, 0, len(m))
	for k := range m {
		ks = append(ks, k)
	}
	sort.Strings(ks)
	return ks
}
