#!/bin/bash
# C06: regenerate the nondeterminism-seam overlay from /repo's current tree, build the instrumented explorer with
# it (/repo is not modified) and run it. Called by ./check C06 <tier> and ./check replay <file> for C06 records.
export GOFLAGS=-mod=mod GOPROXY=off GOSUMDB=off GOTOOLCHAIN=local
cd "${VERIF_DIR:-/verif}" || exit 2
REPO=${VERIF_REPO:-/repo}
mkdir -p bin/seams
if [ ! -x bin/seamgen ] || [ tools/seamgen/main.go -nt bin/seamgen ]; then
  (cd tools/seamgen && go build -o ../../bin/seamgen .) || { echo "HARNESS-ERROR seamgen build failed"; exit 2; }
fi
rm -rf bin/seams/src
bin/seamgen "$REPO" "$PWD/bin/seams" "$PWD/tools/verifrt/rt.go" > bin/seams/log.txt 2>&1 || { cat bin/seams/log.txt; echo "HARNESS-ERROR seamgen could not instrument the current tree"; exit 2; }
tmp=bin/mc-seams.$$
if ! (cd harness && go build -overlay "$PWD/../bin/seams/overlay.json" -o ../$tmp ./cmd/c06) > bin/seams/build.log 2>&1; then
  cat bin/seams/build.log; rm -f $tmp; echo "HARNESS-ERROR instrumented build failed"; exit 2
fi
mv -f $tmp bin/mc-seams
cat bin/seams/log.txt
if [ "$1" = replay ]; then exec ./bin/mc-seams replay "$2"; fi
./bin/mc-seams run "${1:-quick}"; rc=$?
# secondary net (reported, not deciding): the un-instrumented binary in two separate OS processes
a=$(./bin/mc obslog "${1:-quick}" 2>/dev/null | tail -1); b=$(./bin/mc obslog "${1:-quick}" 2>/dev/null | tail -1)
if [ -n "$a" ] && [ "$a" != "$b" ]; then echo "SECONDARY-NET: two un-instrumented processes disagree: $a vs $b"; else echo "secondary net: two un-instrumented processes agree ($a)"; fi
exit $rc
