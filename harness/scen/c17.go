package scen

import (
	"bytes"
	"fmt"
	"sort"
	"strconv"
	"strings"

	"github.com/cosmos/cosmos-sdk/store/prefix"
	sdk "github.com/cosmos/cosmos-sdk/types"

	storagetypes "github.com/jackalLabs/canine-chain/v4/x/storage/types"

	"verif/harness/mc"
	"verif/harness/world"
)

// C17 — stored-file indexes and prover lists stay mutually consistent (a state invariant, checked in every state).
type C17 struct{}

var c17Files = map[string]*sfile{"mA": mkFile(seqBytes(12, 3), 4), "mB": mkFile(seqBytes(7, 77), 4)}
var c17Owners = []string{"U1", "U2"}
var c17Provers = []string{"P1", "P2", "P3"}

type c17Model struct {
	Blocks int
	Posts  int
	Files  []string // "owner|merkle|start" of every file ever posted (candidates for later events)
	Long   bool     // the 31-day block has happened
}

func (m c17Model) Key() []byte { return jkey(m) }

func (C17) ID() string   { return "C17" }
func (C17) Name() string { return "C17/indexes" }
func (C17) Config() world.Config {
	return world.Config{
		Accounts: []string{"U1", "U2", "P1", "P2", "P3"},
		Storage: func(p *storagetypes.Params) {
			p.ChunkSize, p.ProofWindow, p.CheckWindow = 4, 2, 2
			p.AttestFormSize, p.AttestMinToPass = 1, 1
			p.CollateralPrice = 1000
		},
	}
}
func (C17) Stores() []string { return []string{"storage"} }
func (C17) Init(env world.Env) mc.Model {
	w := env.W()
	for i, p := range c17Provers {
		mustOK(env.Deliver(storagetypes.NewMsgInitProvider(w.A(p).Bech, fmt.Sprintf("https://node.prov%d.com", i+1), 1_000_000_000, "kb")), "InitProvider")
	}
	for _, u := range c17Owners {
		mustOK(env.Deliver(storagetypes.NewMsgBuyStorage(w.A(u).Bech, w.A(u).Bech, 30, 1_000_000_000, "ujkl")), "BuyStorage")
	}
	// start from a non-initial state: a file with all three provers already listed (replication 3), so that reward
	// blocks in which several provers lapse at once are within the depth bound
	u := w.A("U1").Bech
	f := c17Files["mB"]
	h := env.Ctx().BlockHeight()
	mustOK(env.Deliver(storagetypes.NewMsgPostFile(u, f.merkle, int64(len(f.data)), 0, 0, 3, "{}")), "seed file")
	for _, p := range c17Provers {
		item, hl := f.proofFor(0)
		if ok, e := postProofOK(w, env.Deliver(storagetypes.NewMsgPostProof(w.A(p).Bech, f.merkle, u, h, item, hl, 0))); !ok {
			panic(e)
		}
	}
	// and a second file (other owner, other content, replication 2) with one prover: two files with provers at every reward block
	u2 := w.A("U2").Bech
	f2 := c17Files["mA"]
	mustOK(env.Deliver(storagetypes.NewMsgPostFile(u2, f2.merkle, int64(len(f2.data)), 0, 0, 2, "{}")), "second seed file")
	item, hl := f2.proofFor(0)
	if ok, e := postProofOK(w, env.Deliver(storagetypes.NewMsgPostProof(w.A("P1").Bech, f2.merkle, u2, h, item, hl, 0))); !ok {
		panic(e)
	}
	files := []string{"U1|mB|" + strconv.FormatInt(h, 10), "U2|mA|" + strconv.FormatInt(h, 10)}
	sort.Strings(files)
	return c17Model{Files: files}
}

func (C17) Events(env world.Env, mm mc.Model) []string {
	m := mm.(c17Model)
	var evs []string
	if m.Posts < 4 {
		for _, u := range c17Owners {
			for _, f := range []string{"mA", "mB"} {
				evs = append(evs, "Post:"+u+":"+f+":1", "Post:"+u+":"+f+":2")
			}
		}
	}
	for _, id := range m.Files {
		fp := strings.Split(id, "|")
		evs = append(evs, "Delete:"+fp[0]+":"+fp[1]+":"+fp[2])
		for _, o := range c17Owners {
			if o != fp[0] {
				evs = append(evs, "Delete:"+o+":"+fp[1]+":"+fp[2]) // someone else's file
			}
		}
		for _, p := range c17Provers {
			evs = append(evs, "Proof:"+p+":"+id)
		}
		evs = append(evs, "ProofCaps:P3:"+id)
		evs = append(evs, "ProofBad:P1:"+id, "ProofBad:P3:"+id) // a proof that does not verify (a join attempt, if the sender is not listed)
	}
	if len(m.Files) > 0 {
		id := m.Files[0]
		evs = append(evs, "AttReq:P1:"+id, "Attest:P2:P1:"+id, "Attest:P3:P1:"+id, "RepReq:P2:P1:"+id, "Report:P2:P1:"+id, "Report:P3:P1:"+id)
	}
	for _, p := range c17Provers[:2] {
		evs = append(evs, "Shutdown:"+p)
	}
	if m.Blocks < 6 {
		evs = append(evs, "NextBlock")
	}
	if !m.Long {
		evs = append(evs, "NextBlock31d") // every 30-day plan has run out afterwards
	}
	return evs
}

func fileID(f storagetypes.UnifiedFile) string {
	return fmt.Sprintf("%x/%s/%d", f.Merkle, f.Owner, f.Start)
}

// c17Invariant evaluates the property in one state.
func c17Invariant(w *world.World, ctx sdk.Context) []mc.Viol {
	var vs []mc.Viol
	k := w.App.StorageKeeper
	cdc := w.Cdc()
	raw := func(pfx string) map[string][]byte {
		st := prefix.NewStore(ctx.KVStore(w.StoreKey("storage")), []byte(pfx))
		it := st.Iterator(nil, nil)
		defer it.Close()
		out := map[string][]byte{}
		for ; it.Valid(); it.Next() {
			var f storagetypes.UnifiedFile
			if err := cdc.Unmarshal(it.Value(), &f); err != nil {
				vs = append(vs, viol("listing-decodes", pfx, "undecodable entry under %s", pfx))
				continue
			}
			out[fileID(f)] = append([]byte{}, it.Value()...)
		}
		return out
	}
	byMerkle := raw(storagetypes.FilePrimaryKeyPrefix)
	byOwner := raw(storagetypes.FileSecondaryKeyPrefix)
	for id, v := range byMerkle {
		o, ok := byOwner[id]
		if !ok {
			vs = append(vs, viol("both-listings-contain-the-same-files", "missing-in-by-owner", "file %s is listed by content but not by owner", id))
		} else if !bytes.Equal(v, o) {
			vs = append(vs, viol("both-listings-contain-the-same-files", "contents-differ", "file %s differs between the two listings", id))
		}
	}
	for id := range byOwner {
		if _, ok := byMerkle[id]; !ok {
			vs = append(vs, viol("both-listings-contain-the-same-files", "missing-in-by-content", "file %s is listed by owner but not by content", id))
		}
	}
	// the same through the gRPC queries
	goctx := sdk.WrapSDKContext(ctx)
	q1 := map[string]bool{}
	if r, err := k.AllFiles(goctx, &storagetypes.QueryAllFiles{}); err == nil {
		for _, f := range r.Files {
			q1[fileID(f)] = true
		}
	}
	q2 := map[string]bool{}
	for _, o := range c17Owners {
		if r, err := k.AllFilesByOwner(goctx, &storagetypes.QueryAllFilesByOwner{Owner: w.A(o).Bech}); err == nil {
			for _, f := range r.Files {
				q2[fileID(f)] = true
			}
		}
	}
	q3 := map[string]bool{}
	for _, f := range c17Files {
		if r, err := k.AllFilesByMerkle(goctx, &storagetypes.QueryAllFilesByMerkle{Merkle: f.merkle}); err == nil {
			for _, f := range r.Files {
				q3[fileID(f)] = true
			}
		}
	}
	keys := func(m map[string]bool) string {
		ks := world.SortedKeys(m)
		return strings.Join(ks, ",")
	}
	if keys(q1) != keys(q2) || keys(q1) != keys(q3) {
		vs = append(vs, viol("every-file-found-by-either-route", "queries-disagree", "AllFiles=%s AllFilesByOwner=%s AllFilesByMerkle=%s", keys(q1), keys(q2), keys(q3)))
	}
	// prover lists
	for id, v := range byMerkle {
		var f storagetypes.UnifiedFile
		_ = cdc.Unmarshal(v, &f)
		seen := map[string]bool{}
		seenAcct := map[string]string{}
		for _, pk := range f.Proofs {
			if seen[pk] {
				vs = append(vs, viol("prover-list-has-no-duplicates", "duplicate", "file %s lists %s twice", id, pk))
			}
			seen[pk] = true
			prover := strings.Split(pk, "/")[0]
			// a prover is an account: the same account under two spellings of its address holds two of the file's seats
			if acc, err := sdk.AccAddressFromBech32(prover); err == nil {
				if other, dup := seenAcct[acc.String()]; dup && other != pk {
					vs = append(vs, viol("prover-list-has-no-duplicates", "same-account-under-two-spellings", "file %s lists the account %s twice: %q and %q", id, w.NameOf(acc.String()), strings.Split(other, "/")[0], prover))
				}
				seenAcct[acc.String()] = pk
			}
			rec, found := k.GetProofWithBuiltKey(ctx, []byte(pk))
			if !found {
				vs = append(vs, viol("listed-prover-has-a-proof-record", "missing-record", "file %s lists %s but no proof record exists", id, pk))
				continue
			}
			if rec.Prover != prover || !bytes.Equal(rec.Merkle, f.Merkle) || rec.Owner != f.Owner || rec.Start != f.Start {
				vs = append(vs, viol("proof-record-refers-back", "mismatch", "file %s, key %s: record %+v", id, pk, rec))
			}
			if r, err := k.Proof(goctx, &storagetypes.QueryProof{ProviderAddress: prover, Merkle: f.Merkle, Owner: f.Owner, Start: f.Start}); err != nil || r.Proof.Prover != prover {
				vs = append(vs, viol("listed-prover-has-a-proof-record", "proof-query", "Proof query for %s on %s failed: %v", prover, id, err))
			}
			okp := false
			if r, err := k.ProofsByAddress(goctx, &storagetypes.QueryProofsByAddress{ProviderAddress: prover}); err == nil {
				for _, pr := range r.Proofs {
					if bytes.Equal(pr.Merkle, f.Merkle) && pr.Owner == f.Owner && pr.Start == f.Start {
						okp = true
					}
				}
			}
			if !okp {
				vs = append(vs, viol("listed-prover-has-a-proof-record", "proofs-by-address", "ProofsByAddress(%s) does not contain the record for %s", prover, id))
			}
		}
		if int64(len(f.Proofs)) > f.MaxProofs {
			vs = append(vs, viol("prover-list-within-replication-limit", "over", "file %s lists %d provers, limit %d", id, len(f.Proofs), f.MaxProofs))
		}
	}
	return vs
}

func (C17) Apply(env world.Env, mm mc.Model, ev string) mc.Step {
	w := env.W()
	m := mm.(c17Model)
	m.Files = append([]string{}, m.Files...)
	p := split(ev)
	st := mc.Step{Outcome: "rejected"}
	var vs []mc.Viol
	fileOf := func(id string) (owner string, f *sfile, start int64) {
		fp := strings.Split(id, "|")
		s, _ := strconv.ParseInt(fp[2], 10, 64)
		return w.A(fp[0]).Bech, c17Files[fp[1]], s
	}
	switch p[0] {
	case "NextBlock", "NextBlock31d":
		dt := day
		if p[0] == "NextBlock31d" {
			dt, m.Long = 31*day, true
		} else {
			m.Blocks++
		}
		if bp := env.NextBlock(dt); bp != nil {
			vs = append(vs, viol("no-panic", "block-panic", "%s", bp.Value))
		}
		st.Outcome = "block"
	case "Post":
		f := c17Files[p[2]]
		mp, _ := strconv.ParseInt(p[3], 10, 64)
		h := env.Ctx().BlockHeight()
		res := env.Deliver(storagetypes.NewMsgPostFile(w.A(p[1]).Bech, f.merkle, int64(len(f.data)), 0, 0, mp, "{}"))
		m.Posts++
		if res.OK() {
			st.Outcome = "ok"
			id := p[1] + "|" + p[2] + "|" + strconv.FormatInt(h, 10)
			if !has(m.Files, id) {
				m.Files = append(m.Files, id)
				sort.Strings(m.Files)
			}
		}
	case "Delete":
		s, _ := strconv.ParseInt(p[3], 10, 64)
		res := env.Deliver(storagetypes.NewMsgDeleteFile(w.A(p[1]).Bech, c17Files[p[2]].merkle, s))
		if res.OK() {
			st.Outcome = "ok"
		}
	case "Proof", "ProofCaps", "ProofBad":
		owner, f, start := fileOf(strings.Join(p[2:], "|"))
		prover := w.A(p[1]).Bech
		if p[0] == "ProofCaps" { // the prover signs with the capital spelling of its address
			prover = strings.ToUpper(prover)
		}
		c := int64(0)
		if pr, ok := w.App.StorageKeeper.GetProof(env.Ctx(), prover, f.merkle, owner, start); ok {
			c = pr.ChunkToProve
		}
		item, hl := f.proofFor(int(c))
		if p[0] == "ProofBad" {
			item = append([]byte("not the chunk: "), item...)
		}
		if ok, _ := postProofOK(w, env.Deliver(storagetypes.NewMsgPostProof(prover, f.merkle, owner, start, item, hl, c))); ok {
			st.Outcome = "ok"
		}
	case "AttReq":
		owner, f, start := fileOf(strings.Join(p[2:], "|"))
		if env.Deliver(storagetypes.NewMsgRequestAttestationForm(w.A(p[1]).Bech, f.merkle, owner, start)).OK() {
			st.Outcome = "ok"
		}
	case "Attest":
		owner, f, start := fileOf(strings.Join(p[3:], "|"))
		if env.Deliver(storagetypes.NewMsgAttest(w.A(p[1]).Bech, w.A(p[2]).Bech, f.merkle, owner, start)).OK() {
			st.Outcome = "ok"
		}
	case "RepReq":
		owner, f, start := fileOf(strings.Join(p[3:], "|"))
		if env.Deliver(storagetypes.NewMsgRequestReportForm(w.A(p[1]).Bech, w.A(p[2]).Bech, f.merkle, owner, start)).OK() {
			st.Outcome = "ok"
		}
	case "Report":
		owner, f, start := fileOf(strings.Join(p[3:], "|"))
		if env.Deliver(storagetypes.NewMsgReport(w.A(p[1]).Bech, w.A(p[2]).Bech, f.merkle, owner, start)).OK() {
			st.Outcome = "ok"
		}
	case "Shutdown":
		if env.Deliver(storagetypes.NewMsgShutdownProvider(w.A(p[1]).Bech)).OK() {
			st.Outcome = "ok"
		}
	}
	st.Exercised = append(st.Exercised, "invariant-evaluated")
	vs = append(vs, c17Invariant(w, env.Ctx())...)
	st.Model, st.Viols = m, vs
	return st
}

func init() {
	regScenario(C17{})
	Props["C17"] = Prop{Level: "model_checking", Run: func(r *mc.Run, tier string) {
		r.Rules = append(r.Rules, "BFS over post (2 owners x 2 contents x replication {1,2}, also the same key twice in a block), delete (owner and non-owner), valid proofs by 3 provers on every posted file, attestation and report request/sign, provider shutdown, NextBlock (reward blocks with removals, 1-day blocks); the invariant is evaluated in every reached state through raw store iteration and through the AllFiles/AllFilesByOwner/AllFilesByMerkle/Proof/ProofsByAddress queries")
		r.Assumptions = append(r.Assumptions, "at most 4 posts and 6 block boundaries per history")
		r.AddExplore(C17{}, opts(tier, 5, 8, 60, 1200, 150, 2000))
	}}
}
