package scen

import (
	"fmt"
	"sort"
	"strings"
	"time"

	sdk "github.com/cosmos/cosmos-sdk/types"

	storagetypes "github.com/jackalLabs/canine-chain/v4/x/storage/types"

	"verif/harness/mc"
	"verif/harness/world"
)

// C14 — attestations and reports act only on a quorum of the providers named on the form.
type C14 struct {
	Size, Min int64
	Extra     bool // adds a second pair of forms, a restart of the module, and a provider (Q6) that can lose its only proof
	Rejoin    bool // the prover, once reported off the file, may claim it again with a fresh proof (open forms outlive its absence)
}

var c14File = mkFile(seqBytes(12, 7), 4)

// V is the prover the forms are about. Q1 shares V's domain (never eligible), Q2..Q4 are registered and hold a
// proof, Q5 is registered but holds nothing, S holds a proof but is not a registered provider.
var c14Signers = []string{"Q1", "Q2", "Q3", "Q4", "Q5", "V", "S", "Q6"}

// Q6 is registered and its only proof is on a second file, which the owner can delete: then it holds nothing
var c14File2 = mkFile(seqBytes(12, 8), 4)

type c14Model struct {
	Blocks             int
	Start              int64
	AttNamed           []string // providers named on the open attestation form about V (empty: no form)
	AttSigned          []string
	RepNamed           []string
	RepSigned          []string
	AttForms, RepForms int      // forms created so far (bounded)
	Second             bool     // a second pair of forms (about Q1) has been requested
	Restarted          bool     // the storage module has been restarted from its exported genesis
	F2Deleted          bool     // the second file (Q6's only proof) has been deleted by its owner
	Shut               []string // providers that have deregistered (they may still be named on an open form)
	Q5Holds            bool     // the join attempt was accepted after all
	BadProofs          int      // rejected join attempts of the proof-less provider so far (bounded)
	VOff               bool     // the prover is currently not listed on the file
	Rejoins            int
}

func (m c14Model) Key() []byte { return jkey(m) }

func (s C14) ID() string { return "C14" }
func (s C14) Name() string {
	if s.Extra {
		return fmt.Sprintf("C14/forms-size%d-min%d-extra", s.Size, s.Min)
	}
	if s.Rejoin {
		return fmt.Sprintf("C14/forms-size%d-min%d-rejoin", s.Size, s.Min)
	}
	return fmt.Sprintf("C14/forms-size%d-min%d", s.Size, s.Min)
}
func (s C14) Config() world.Config {
	return world.Config{
		Accounts: []string{"U", "V", "Q1", "Q2", "Q3", "Q4", "Q5", "S", "Q6"},
		Storage: func(p *storagetypes.Params) {
			p.ChunkSize, p.ProofWindow, p.CheckWindow = 4, 50, 100
			p.AttestFormSize, p.AttestMinToPass = s.Size, s.Min
			p.CollateralPrice = 1000
		},
	}
}
func (s C14) Stores() []string { return []string{"storage"} }

func (s C14) Init(env world.Env) mc.Model {
	w := env.W()
	domains := map[string]string{"V": "https://a.shared.com:3333", "Q1": "https://b.shared.com", "Q2": "https://n.two.com:26657", "Q3": "https://n.three.com", "Q4": "https://n.four.org", "Q5": "https://n.five.net", "Q6": "https://n.six.io"}
	regs := []string{"V", "Q1", "Q2", "Q3", "Q4", "Q5"}
	if s.Extra {
		regs = append(regs, "Q6")
	}
	for _, p := range regs {
		mustOK(env.Deliver(storagetypes.NewMsgInitProvider(w.A(p).Bech, domains[p], 1_000_000_000, "kb")), "InitProvider")
	}
	u := w.A("U").Bech
	mustOK(env.Deliver(storagetypes.NewMsgBuyStorage(u, u, 30, 1_000_000_000, "ujkl")), "BuyStorage")
	start := env.Ctx().BlockHeight()
	mustOK(env.Deliver(storagetypes.NewMsgPostFile(u, c14File.merkle, 12, 0, 0, 8, "{}")), "PostFile")
	for _, p := range []string{"V", "Q1", "Q2", "Q3", "Q4", "S"} {
		item, hl := c14File.proofFor(0)
		if ok, e := postProofOK(w, env.Deliver(storagetypes.NewMsgPostProof(w.A(p).Bech, c14File.merkle, u, start, item, hl, 0))); !ok {
			panic("setup: " + e)
		}
	}
	if s.Extra {
		mustOK(env.Deliver(storagetypes.NewMsgPostFile(u, c14File2.merkle, 12, 0, 0, 1, "{}")), "PostFile 2")
		item, hl := c14File2.proofFor(0)
		if ok, e := postProofOK(w, env.Deliver(storagetypes.NewMsgPostProof(w.A("Q6").Bech, c14File2.merkle, u, start, item, hl, 0))); !ok {
			panic("setup: " + e)
		}
	}
	return c14Model{Start: start}
}

func (s C14) Events(env world.Env, mm mc.Model) []string {
	m := mm.(c14Model)
	evs := []string{}
	if m.AttForms < 2 {
		evs = append(evs, "AttReq:V")
	}
	if m.RepForms < 2 {
		evs = append(evs, "RepReq:U:V")
	}
	signers := c14Signers
	if !s.Extra {
		signers = signers[:len(signers)-1] // Q6 exists in the extra variant only
	}
	for _, x := range signers {
		evs = append(evs, "Attest:"+x+":V")
	}
	for _, x := range signers {
		evs = append(evs, "Report:"+x+":V")
	}
	evs = append(evs, "Attest:Q2:Q3", "Report:Q2:Q3") // forms that were never requested
	if m.BadProofs < 1 {
		evs = append(evs, "BadProof:Q5") // the registered provider that holds no proof tries to join with a payload that does not verify
	}
	if s.Rejoin && m.VOff && m.Rejoins < 1 {
		evs = append(evs, "Rejoin:V")
	}
	if !s.Extra {
		if m.Blocks < 2 {
			evs = append(evs, "NextBlock")
		}
		return evs
	}
	if !m.Second {
		evs = append(evs, "Forms2") // Q1 requests an attestation form about itself and U a report form about Q1
	}
	if !m.Restarted {
		evs = append(evs, "Restart") // the storage module restarts from its own exported genesis
	}
	if !m.F2Deleted {
		evs = append(evs, "DeleteF2") // the owner deletes the second file: Q6 no longer holds any proof
	}
	for _, q := range []string{"Q2", "Q3"} {
		if !has(m.Shut, q) {
			evs = append(evs, "Shutdown:"+q) // a provider deregisters, possibly while named on an open form
		}
	}
	if m.Blocks < 2 {
		evs = append(evs, "NextBlock")
	}
	return evs
}

func has(xs []string, x string) bool {
	for _, y := range xs {
		if x == y {
			return true
		}
	}
	return false
}

func (s C14) Apply(env world.Env, mm mc.Model, ev string) mc.Step {
	w := env.W()
	m := mm.(c14Model)
	m.AttNamed, m.AttSigned = append([]string{}, m.AttNamed...), append([]string{}, m.AttSigned...)
	m.RepNamed, m.RepSigned = append([]string{}, m.RepNamed...), append([]string{}, m.RepSigned...)
	p := split(ev)
	st := mc.Step{Outcome: "rejected"}
	var vs []mc.Viol
	u := w.A("U").Bech
	k := w.App.StorageKeeper
	v := w.A("V").Bech
	eligible := []string{"Q2", "Q3", "Q4"}           // registered, hold a proof, not in the prover's domain, not the prover
	holders := []string{"V", "Q1", "Q2", "Q3", "Q4"} // registered providers that hold a proof
	if s.Extra && !m.F2Deleted {
		holders = append(holders, "Q6")
	}
	if m.Q5Holds {
		holders = append(holders, "Q5")
	}
	if len(m.Shut) > 0 { // a deregistered provider is not a registered proof holder any more (for forms drawn from now on)
		var still []string
		for _, h := range holders {
			if !has(m.Shut, h) {
				still = append(still, h)
			}
		}
		holders = still
	}

	checkNames := func(kind string, names []string) []string {
		var out []string
		for _, a := range names {
			n := w.NameOf(a)
			out = append(out, n)
			if n == "V" {
				vs = append(vs, viol("form-never-names-the-prover", kind, "%s form names the prover itself", kind))
			}
			if !has(holders, n) {
				vs = append(vs, viol("form-names-only-registered-proof-holders", kind+" named="+n, "%s form names %s, which is not a registered provider holding a proof", kind, n))
			}
		}
		sort.Strings(out)
		return out
	}

	switch p[0] {
	case "NextBlock":
		if bp := env.NextBlock(6 * time.Second); bp != nil {
			vs = append(vs, viol("no-panic", "block-panic", "%s", bp.Value))
		}
		m.Blocks++
		st.Outcome = "block"
	case "BadProof":
		item, hl := c14File.proofFor(1) // the proof of another chunk than the one a newcomer is asked for
		if ok, _ := postProofOK(w, env.Deliver(storagetypes.NewMsgPostProof(w.A(p[1]).Bech, c14File.merkle, u, m.Start, item, hl, 0))); ok {
			m.Q5Holds = true // not this property's concern (C01's): from here on the provider does hold a proof
		}
		m.BadProofs++
		st.Outcome = "ok"
		st.Exercised = append(st.Exercised, "rejected-join-of-a-proofless-provider")
	case "Rejoin":
		item, hl := c14File.proofFor(0)
		if ok, e := postProofOK(w, env.Deliver(storagetypes.NewMsgPostProof(v, c14File.merkle, u, m.Start, item, hl, 0))); !ok {
			panic("harness: the prover could not claim the file again: " + e)
		}
		m.Rejoins++
		st.Outcome = "ok"
		st.Exercised = append(st.Exercised, "prover-rejoined")
	case "Shutdown":
		if env.Deliver(storagetypes.NewMsgShutdownProvider(w.A(p[1]).Bech)).OK() {
			st.Outcome = "ok"
			m.Shut = append(append([]string{}, m.Shut...), p[1])
			sort.Strings(m.Shut)
		} else {
			panic("harness: a registered provider could not deregister")
		}
	case "DeleteF2":
		if env.Deliver(storagetypes.NewMsgDeleteFile(u, c14File2.merkle, m.Start)).OK() {
			st.Outcome = "ok"
			m.F2Deleted = true
		} else {
			panic("harness: the owner could not delete its own second file")
		}
	case "Forms2":
		q1 := w.A("Q1").Bech
		r1 := env.Deliver(storagetypes.NewMsgRequestAttestationForm(q1, c14File.merkle, u, m.Start))
		r2 := env.Deliver(storagetypes.NewMsgRequestReportForm(u, q1, c14File.merkle, u, m.Start))
		m.Second = true
		if r1.OK() || r2.OK() {
			st.Outcome = "ok"
		}
	case "Restart":
		forms := func() []world.KV {
			var out []world.KV
			for _, kv := range w.DumpStore(env.Ctx(), "storage") {
				if strings.HasPrefix(string(kv.K), storagetypes.AttestationKeyPrefix) || strings.HasPrefix(string(kv.K), storagetypes.ReportKeyPrefix) {
					out = append(out, kv)
				}
			}
			return out
		}
		before := forms()
		err := restartModule(env, "storage")
		after := forms()
		m.Restarted = true
		st.Outcome = "ok"
		st.Exercised = append(st.Exercised, fmt.Sprintf("restart-with-%d-forms", len(before)))
		if err != nil {
			vs = append(vs, viol("open-forms-survive-a-restart", "restart-failed", "export -> import of the storage module failed: %v", err))
		} else if !storeEqual(before, after) {
			vs = append(vs, viol("open-forms-survive-a-restart", fmt.Sprintf("forms-changed n=%d", len(before)), "the open attestation/report forms differ after export -> import of the storage module: %v", storeDiffKeys(before, after)))
		}
	case "AttReq":
		res := env.Deliver(storagetypes.NewMsgRequestAttestationForm(v, c14File.merkle, u, m.Start))
		var r storagetypes.MsgRequestAttestationFormResponse
		if res.OK() && w.Cdc().Unmarshal(res.RespData, &r) == nil && r.Success {
			st.Outcome = "ok"
			m.AttForms++
			m.AttNamed = checkNames("attestation", r.Providers)
			m.AttSigned = nil
			st.Exercised = append(st.Exercised, "attestation-form-created")
			_ = eligible
		}
	case "RepReq":
		res := env.Deliver(storagetypes.NewMsgRequestReportForm(w.A(p[1]).Bech, v, c14File.merkle, u, m.Start))
		var r storagetypes.MsgRequestReportFormResponse
		if res.OK() && w.Cdc().Unmarshal(res.RespData, &r) == nil && r.Success {
			st.Outcome = "ok"
			m.RepForms++
			m.RepNamed = checkNames("report", r.Providers)
			m.RepSigned = nil
			st.Exercised = append(st.Exercised, "report-form-created")
		}
	case "Attest", "Report":
		x := p[1]
		about := w.A(p[2]).Bech
		before := w.DumpStore(env.Ctx(), "storage")
		proofBefore, hadProof := k.GetProof(env.Ctx(), v, c14File.merkle, u, m.Start)
		fileBefore, _ := getFile(w, env.Ctx(), c14File.merkle, u, m.Start)
		var named, signed *[]string
		if p[0] == "Attest" {
			named, signed = &m.AttNamed, &m.AttSigned
			env.Deliver(storagetypes.NewMsgAttest(w.A(x).Bech, about, c14File.merkle, u, m.Start))
		} else {
			named, signed = &m.RepNamed, &m.RepSigned
			env.Deliver(storagetypes.NewMsgReport(w.A(x).Bech, about, c14File.merkle, u, m.Start))
		}
		after := w.DumpStore(env.Ctx(), "storage")
		proofAfter, hasProof := k.GetProof(env.Ctx(), v, c14File.merkle, u, m.Start)
		fileAfter, _ := getFile(w, env.Ctx(), c14File.merkle, u, m.Start)
		formOpen := p[2] == "V" && len(*named) > 0
		effective := formOpen && has(*named, x) && !has(*signed, x)
		if !effective {
			why := "unnamed-signer"
			switch {
			case p[2] != "V" || len(*named) == 0:
				why = "no-such-form"
			case has(*signed, x):
				why = "repeated-signature"
			}
			st.Exercised = append(st.Exercised, p[0]+"/"+why)
			// a signer whose earlier signature met a form that could not complete (the prover was off the file) may
			// sign again: the quorum of distinct named signers exists, so the form may complete now
			completes := s.Rejoin && why == "repeated-signature" && int64(len(*signed)) >= s.Min
			if completes {
				st.Exercised = append(st.Exercised, p[0]+"/repeat-on-a-reached-quorum")
			}
			if !storeEqual(before, after) && !completes {
				vs = append(vs, viol("ineffective-signature-has-no-effect", p[0]+" "+why, "%s changed the storage store: %v", ev, storeDiffKeys(before, after)))
			}
		} else {
			*signed = append(*signed, x)
			sort.Strings(*signed)
			st.Outcome = "ok"
		}
		quorum := formOpen && int64(len(*signed)) >= s.Min
		acted := false
		if p[0] == "Attest" {
			acted = hadProof && hasProof && proofAfter.LastProven != proofBefore.LastProven
			// LastProven == current height both before and after cannot be told apart; the form's disappearance can
			if _, open := k.GetAttestationForm(env.Ctx(), v, c14File.merkle, u, m.Start); !open && formOpen {
				acted = true
			}
		} else {
			acted = proverListed(fileBefore, v) && !proverListed(fileAfter, v)
			if _, open := k.GetReportForm(env.Ctx(), v, c14File.merkle, u, m.Start); !open && formOpen {
				acted = true
			}
		}
		if acted {
			st.Exercised = append(st.Exercised, p[0]+"/acted")
			if !quorum {
				vs = append(vs, viol("acts-only-on-quorum-of-named-providers", p[0]+" without quorum", "%s acted with distinct named signers %v of named %v, minimum %d", ev, *signed, *named, s.Min))
			}
			*named, *signed = nil, nil
		} else if effective && quorum && proverListed(fileBefore, v) {
			// the quorum is reached but the form did not complete: the statement only demands safety ("only
			// after"), so this is recorded as a statistic, not as a violation
			st.Exercised = append(st.Exercised, p[0]+"/quorum-reached-without-effect")
		}
	}
	if f, ok := getFile(w, env.Ctx(), c14File.merkle, u, m.Start); ok {
		m.VOff = !proverListed(f, v)
	}
	st.Model, st.Viols = m, vs
	return st
}

// c14LapseEnum: fixed histories in which the prover leaves the file through the reward block, not through a report.
func c14LapseEnum(size int64) mc.Enum {
	sc := C14{Size: size, Min: 2, Rejoin: true}
	nb := rep("NextBlock", 200)
	var paths [][]string
	for _, kind := range []string{"Report", "Attest"} {
		req := "RepReq:U:V"
		if kind == "Attest" {
			req = "AttReq:V"
		}
		for _, second := range []string{"Q3", "Q4", "Q2"} {
			for _, third := range []string{"Q3", "Q4", "Q2"} {
				paths = append(paths, cat([]string{req, kind + ":Q2:V"}, nb, []string{kind + ":" + second + ":V", "Rejoin:V", kind + ":" + third + ":V", kind + ":Q2:V", kind + ":Q4:V"}))
			}
		}
	}
	return pathEnum("C14", fmt.Sprintf("C14/lapse-paths-size%d", size), sc, paths)
}

// (4,2): one more than the three eligible providers, but not more than all active ones (the prover and its sister node included)
var c14Settings = [][2]int64{{1, 1}, {2, 1}, {2, 2}, {3, 2}, {3, 3}, {3, 0}, {4, 2}}

func init() {
	for _, sm := range c14Settings {
		regScenario(C14{Size: sm[0], Min: sm[1]})
	}
	regScenario(C14{Size: 3, Min: 2, Extra: true})
	regScenario(C14{Size: 2, Min: 2, Extra: true})
	regScenario(C14{Size: 2, Min: 2, Rejoin: true})
	regScenario(C14{Size: 3, Min: 2, Rejoin: true})
	CaseReplayers["C14/lapse-paths-size2"] = func(r *mc.Run, c string) { r.ReplayCase(c14LapseEnum(2), c) }
	CaseReplayers["C14/lapse-paths-size3"] = func(r *mc.Run, c string) { r.ReplayCase(c14LapseEnum(3), c) }
	Props["C14"] = Prop{Level: "model_checking", Run: func(r *mc.Run, tier string) {
		r.Rules = append(r.Rules, "for each (form size, minimum) in {(1,1),(2,1),(2,2),(3,2),(3,3),(3,0),(4,2)}: BFS over request-attestation, request-report, Attest and Report by every account in {same-domain provider, 3 eligible providers, registered provider without proofs, the prover itself, unregistered proof holder} incl. repeats and never-requested forms, NextBlock (changes the shuffle); a rejected join attempt of the provider that holds no proof; reference = set of distinct named signers per form")
		r.Assumptions = append(r.Assumptions, "7 signers, one file, forms created at up to 3 heights", strings.TrimSpace("whether a reached quorum completes the form is counted, not enforced (the statement demands safety only)"))
		for _, sm := range c14Settings {
			r.AddExplore(C14{Size: sm[0], Min: sm[1]}, opts(tier, 12, 16, 15, 240, 30, 300))
		}
		r.Rules = append(r.Rules, "extra variant for (3,2) and (2,2): the same plus a second pair of forms about another prover, one restart of the storage module from its own exported genesis (open forms must survive byte-identically) and a provider whose only proof can disappear (the owner deletes that file) inside the block in which forms are requested")
		r.AddExplore(C14{Size: 3, Min: 2, Extra: true}, opts(tier, 7, 11, 40, 600, 30, 300))
		r.AddExplore(C14{Size: 2, Min: 2, Extra: true}, opts(tier, 7, 11, 40, 600, 30, 300))
		r.Rules = append(r.Rules, "rejoin variant for (2,2) and (3,2): the prover, reported off the file, claims it again with a fresh proof while forms about it are still open; a signature repeated after the quorum of distinct named signers exists may complete the form, nothing else may")
		r.AddExplore(C14{Size: 2, Min: 2, Rejoin: true}, opts(tier, 13, 18, 30, 600, 30, 300))
		r.AddExplore(C14{Size: 3, Min: 2, Rejoin: true}, opts(tier, 13, 18, 30, 600, 30, 300))
		r.Rules = append(r.Rules, "lapse paths (rejoin variant, (2,2) and (3,2)): forms about the prover collect one signature, nobody proves for 200 blocks (the reward block drops every prover), a second named provider signs while the prover is off the file, the prover claims the file again, and named providers sign once more - every step judged by the same oracle")
		r.AddEnum(c14LapseEnum(2), workers(), time.Time{})
		r.AddEnum(c14LapseEnum(3), workers(), time.Time{})
	}}
	_ = sdk.ZeroInt
}
