package main

import (
	"crypto/sha256"
	"encoding/json"
	"fmt"
	"os"

	"verif/harness/mc"
	"verif/harness/scen"
	"verif/harness/world"
)

func main() {
	out := world.Muzzle()
	if len(os.Args) < 3 {
		fmt.Fprintln(out, "usage: mc <property> quick|thorough | mc replay <file>")
		os.Exit(2)
	}
	if os.Args[1] == "replay" {
		os.Exit(replay(os.Args[2]))
	}
	if os.Args[1] == "obslog" {
		// secondary net of C06: hash of all observation logs of the C06 history set in this (un-instrumented) process
		h := sha256.New()
		n := 0
		for _, hs := range scen.C06Histories(os.Args[2]) {
			_, e, _, err := mc.ReplayB(hs.Sc, hs.Path)
			if err != nil {
				continue
			}
			e.Finish()
			for _, l := range e.Obs {
				h.Write([]byte(l))
				h.Write([]byte{10})
			}
			n++
			if os.Args[2] == "quick" && n >= 150 {
				break
			}
		}
		fmt.Fprintf(out, "histories=%d sha256=%x\n", n, h.Sum(nil))
		os.Exit(0)
	}
	id, tier := os.Args[1], os.Args[2]
	p, ok := scen.Props[id]
	if !ok {
		fmt.Fprintf(out, "unknown property %s\n", id)
		os.Exit(2)
	}
	if tier != "quick" && tier != "thorough" {
		tier = "quick"
	}
	r := mc.NewRun(id, tier, p.Level)
	p.Run(r, tier)
	os.Exit(r.Finish())
}

func replay(path string) int {
	out := world.Muzzle()
	bz, err := os.ReadFile(path)
	if err != nil {
		fmt.Fprintln(out, err)
		return 2
	}
	var rec mc.Record
	if err := json.Unmarshal(bz, &rec); err != nil {
		fmt.Fprintln(out, err)
		return 2
	}
	if rec.Kind == "case" {
		f, ok := scen.CaseReplayers[rec.Scenario]
		if !ok {
			fmt.Fprintf(out, "no case replayer for %s\n", rec.Scenario)
			return 2
		}
		r := mc.NewRun(rec.Property, "quick", "exploration")
		r.NoEvidence = true
		f(r, rec.Case)
		return r.Finish()
	}
	sc, ok := scen.Scenarios[rec.Scenario]
	if !ok {
		fmt.Fprintf(out, "unknown scenario %s\n", rec.Scenario)
		return 2
	}
	sa, _, _ := mc.ReplayA(sc, rec.Path)
	sb, _, _, err := mc.ReplayB(sc, rec.Path)
	if err != nil {
		fmt.Fprintf(out, "seam B replay error: %v\n", err)
		return 2
	}
	hit := false
	for _, s := range []mc.Step{sa, sb} {
		for _, v := range s.Viols {
			fmt.Fprintf(out, "  observed: %s — %s\n", v.Sig, v.Detail)
		}
	}
	for _, v := range sb.Viols {
		if v.Sig == rec.Signature {
			hit = true
		}
	}
	hitA := false
	for _, v := range sa.Viols {
		if v.Sig == rec.Signature {
			hitA = true
		}
	}
	if hit && hitA {
		fmt.Fprintf(out, "VIOLATION property=%s replay=%s\n", rec.Property, path)
		return 1
	}
	fmt.Fprintf(out, "history no longer violates %s (seamA=%v seamB=%v)\n", rec.Signature, hitA, hit)
	return 0
}
