package world

import (
	"fmt"
	"runtime"
	"runtime/debug"
	"strings"
	"time"

	"github.com/cosmos/cosmos-sdk/client"
	sdk "github.com/cosmos/cosmos-sdk/types"
	"github.com/cosmos/cosmos-sdk/types/tx/signing"
	authsigning "github.com/cosmos/cosmos-sdk/x/auth/signing"
	"github.com/gogo/protobuf/proto"
	abci "github.com/tendermint/tendermint/abci/types"
	"github.com/tendermint/tendermint/libs/log"
	tmproto "github.com/tendermint/tendermint/proto/tendermint/types"

	"github.com/jackalLabs/canine-chain/v4/app"
)

// TxResult is what a scenario can observe about one delivered message, identical at both seams.
type TxResult struct {
	Err       error  // nil iff the transaction was accepted and its writes were kept
	Panicked  bool   // the handler panicked (runTx recovers this into a failed tx)
	Stage     string // "validate", "ante", "handler", "" (ok)
	RespData  []byte // marshalled Msg...Response of the (single) message
	Events    []abci.Event
	GasUsed   int64
	GasWanted int64
	Code      uint32
	Log       string
}

func (r TxResult) OK() bool { return r.Err == nil }

// BlockPanic describes a panic during block processing.
type BlockPanic struct {
	Phase  string // "EndBlock" / "BeginBlock"
	Height int64
	Value  string
	Stack  string
}

// Env is the execution interface shared by the handler seam (EnvA) and the ABCI seam (EnvB).
// The current state is always "inside block Height(), after BeginBlock".
type Env interface {
	W() *World
	Seam() string
	Ctx() sdk.Context // view of the current state (do not write through it; use Mutate)
	Deliver(msg sdk.Msg) TxResult
	// NextBlock ends the current block and begins the next one (height+1, time+dT).
	NextBlock(dT time.Duration) *BlockPanic
	// Mutate writes state directly (governance-style parameter change executed in the current block).
	Mutate(fn func(ctx sdk.Context))
	// DeliverMulti delivers one transaction carrying several messages: all of them take effect or none does
	DeliverMulti(msgs []sdk.Msg) TxResult
	// DeliverUnsigned runs one message the way a message dispatched by a contract or another module account is run: routed
	// to its handler on a branch of the block's state, kept on success - no signature, because the sender holds no key
	DeliverUnsigned(msg sdk.Msg) TxResult
	// DeliverGas delivers one message in a transaction with the given gas limit (seam A: a finite gas meter around the
	// handler - running out of gas discards the transaction; seam B: the limit of the signed transaction)
	DeliverGas(msg sdk.Msg, gas uint64) TxResult
	// SetBlockGas sets the gas already consumed in the current block by other transactions
	// (seam A: directly; seam B: ignored — real gas accumulates there).
	SetBlockGas(g uint64)
	BeginEvents() []abci.Event // events of the last BeginBlock+EndBlock pair (for determinism logs)
}

var FirstBlockTime = GenesisTime.Add(6 * time.Second)

// ---------------------------------------------------------------------------------------------
// Seam A

type EnvA struct {
	w               *World
	ctx             sdk.Context
	gas             uint64
	lastBlockEvents []abci.Event
}

func maxBlockGas() uint64 { return uint64(app.DefaultConsensusParams.Block.MaxGas) }

// NewEnvA roots a fresh branch at the committed genesis and begins block 2.
func (w *World) NewEnvA() *EnvA {
	hdr := w.Header(w.App.LastBlockHeight()+1, FirstBlockTime)
	ctx := sdk.NewContext(w.App.CommitMultiStore().CacheMultiStore(), hdr, false, log.NewNopLogger())
	e := &EnvA{w: w, ctx: ctx}
	if p := e.beginBlock(hdr, nil); p != nil {
		panic(fmt.Sprintf("harness: first BeginBlock panicked: %s\n%s", p.Value, p.Stack))
	}
	return e
}

func (e *EnvA) W() *World        { return e.w }
func (e *EnvA) Seam() string     { return "A" }
func (e *EnvA) Ctx() sdk.Context { return e.ctx }
func (e *EnvA) SetBlockGas(g uint64) {
	e.gas = g
	gm := sdk.NewGasMeter(maxBlockGas())
	gm.ConsumeGas(g, "other transactions")
	e.ctx = e.ctx.WithBlockGasMeter(gm)
}
func (e *EnvA) BeginEvents() []abci.Event { return e.lastBlockEvents }

// Fork returns an independent copy of the environment (O(1), copy-on-write).
func (e *EnvA) Fork() *EnvA {
	c, _ := e.ctx.CacheContext()
	n := &EnvA{w: e.w, ctx: c, gas: e.gas}
	n.SetBlockGas(e.gas)
	return n
}

func (e *EnvA) Mutate(fn func(ctx sdk.Context)) { fn(e.ctx) }

func (e *EnvA) Deliver(msg sdk.Msg) (res TxResult) {
	if err := msg.ValidateBasic(); err != nil {
		return TxResult{Err: err, Stage: "validate", Code: 1}
	}
	h := e.w.App.MsgServiceRouter().Handler(msg)
	if h == nil {
		return TxResult{Err: fmt.Errorf("no handler for %s", sdk.MsgTypeURL(msg)), Stage: "route", Code: 1}
	}
	txCtx, write := e.ctx.CacheContext()
	txCtx = txCtx.WithEventManager(sdk.NewEventManager()).WithGasMeter(sdk.NewInfiniteGasMeter())
	defer func() {
		if r := recover(); r != nil {
			res = TxResult{Err: fmt.Errorf("panic: %v", r), Panicked: true, Stage: "handler", Code: 111222, Log: string(debug.Stack())}
		}
	}()
	r, err := h(txCtx, msg)
	if err != nil {
		return TxResult{Err: err, Stage: "handler", Code: 1}
	}
	write()
	out := TxResult{}
	if r != nil {
		out.RespData = r.Data
		out.Events = r.Events
	}
	return out
}

func (e *EnvA) DeliverUnsigned(msg sdk.Msg) TxResult { return e.Deliver(msg) }

func (e *EnvA) DeliverGas(msg sdk.Msg, gas uint64) (res TxResult) {
	if err := msg.ValidateBasic(); err != nil {
		return TxResult{Err: err, Stage: "validate", Code: 1}
	}
	h := e.w.App.MsgServiceRouter().Handler(msg)
	if h == nil {
		return TxResult{Err: fmt.Errorf("no handler for %s", sdk.MsgTypeURL(msg)), Stage: "route", Code: 1}
	}
	txCtx, write := e.ctx.CacheContext()
	txCtx = txCtx.WithEventManager(sdk.NewEventManager()).WithGasMeter(sdk.NewGasMeter(gas))
	defer func() {
		if r := recover(); r != nil { // running out of gas is a panic of the gas meter: the transaction fails, nothing is kept
			res = TxResult{Err: fmt.Errorf("panic: %v", r), Panicked: true, Stage: "handler", Code: 111222}
			if _, oog := r.(sdk.ErrorOutOfGas); oog {
				res.Panicked, res.Code = false, 11
			}
		}
	}()
	r, err := h(txCtx, msg)
	if err != nil {
		return TxResult{Err: err, Stage: "handler", Code: 1}
	}
	write()
	out := TxResult{GasUsed: int64(txCtx.GasMeter().GasConsumed()), GasWanted: int64(gas)}
	if r != nil {
		out.RespData = r.Data
		out.Events = r.Events
	}
	return out
}

func (e *EnvB) DeliverGas(msg sdk.Msg, gas uint64) TxResult {
	if err := msg.ValidateBasic(); err != nil {
		return TxResult{Err: err, Stage: "validate", Code: 1}
	}
	var signers []Acct
	for _, s := range msg.GetSigners() {
		for _, n := range e.w.Order {
			if e.w.Accts[n].Addr.Equals(s) {
				signers = append(signers, e.w.Accts[n])
			}
		}
	}
	return e.deliverSignedGas([]sdk.Msg{msg}, signers, gas)
}

func (e *EnvB) DeliverUnsigned(msg sdk.Msg) (res TxResult) {
	if err := msg.ValidateBasic(); err != nil {
		return TxResult{Err: err, Stage: "validate", Code: 1}
	}
	h := e.w.App.MsgServiceRouter().Handler(msg)
	if h == nil {
		return TxResult{Err: fmt.Errorf("no handler for %s", sdk.MsgTypeURL(msg)), Stage: "route", Code: 1}
	}
	e.Mutate(func(ctx sdk.Context) {
		cctx, write := ctx.CacheContext()
		cctx = cctx.WithEventManager(sdk.NewEventManager())
		defer func() {
			if r := recover(); r != nil {
				res = TxResult{Err: fmt.Errorf("panic: %v", r), Panicked: true, Stage: "handler", Code: 111222}
			}
		}()
		r, err := h(cctx, msg)
		if err != nil {
			res = TxResult{Err: err, Stage: "handler", Code: 1}
			return
		}
		write()
		if r != nil {
			res.RespData, res.Events = r.Data, r.Events
		}
		e.Obs = append(e.Obs, fmt.Sprintf("unsigned-msg h=%d %s data=%x", e.height, sdk.MsgTypeURL(msg), res.RespData))
	})
	return res
}

func (e *EnvA) DeliverMulti(msgs []sdk.Msg) (res TxResult) {
	for _, msg := range msgs {
		if err := msg.ValidateBasic(); err != nil {
			return TxResult{Err: err, Stage: "validate", Code: 1}
		}
	}
	txCtx, write := e.ctx.CacheContext()
	txCtx = txCtx.WithEventManager(sdk.NewEventManager()).WithGasMeter(sdk.NewInfiniteGasMeter())
	defer func() {
		if r := recover(); r != nil {
			res = TxResult{Err: fmt.Errorf("panic: %v", r), Panicked: true, Stage: "handler", Code: 111222, Log: string(debug.Stack())}
		}
	}()
	out := TxResult{}
	for i, msg := range msgs {
		h := e.w.App.MsgServiceRouter().Handler(msg)
		if h == nil {
			return TxResult{Err: fmt.Errorf("no handler for %s", sdk.MsgTypeURL(msg)), Stage: "route", Code: 1}
		}
		// like baseapp.runMsgs: every message runs on a branch of the transaction's branch
		mctx, mwrite := txCtx.CacheContext()
		r, err := h(mctx, msg)
		if err != nil {
			return TxResult{Err: fmt.Errorf("message %d: %w", i, err), Stage: "handler", Code: 1}
		}
		mwrite()
		if i == 0 && r != nil {
			out.RespData = r.Data
		}
		if r != nil {
			out.Events = append(out.Events, r.Events...)
		}
	}
	write()
	return out
}

func (e *EnvA) NextBlock(dT time.Duration) (bp *BlockPanic) {
	a := e.w.App
	h := e.ctx.BlockHeight()
	var endEvents []abci.Event
	func() {
		defer func() {
			if r := recover(); r != nil {
				bp = &BlockPanic{Phase: "EndBlock", Height: h, Value: fmt.Sprint(r), Stack: string(debug.Stack())}
			}
		}()
		ectx := e.ctx.WithEventManager(sdk.NewEventManager())
		er := a.EndBlocker(ectx, abci.RequestEndBlock{Height: h})
		endEvents = er.Events
	}()
	if bp != nil {
		return bp
	}
	return e.beginBlock(e.w.Header(h+1, e.ctx.BlockTime().Add(dT)), endEvents)
}

func (e *EnvA) beginBlock(hdr tmproto.Header, endEvents []abci.Event) (bp *BlockPanic) {
	a := e.w.App
	defer func() {
		if r := recover(); r != nil {
			bp = &BlockPanic{Phase: "BeginBlock", Height: hdr.Height, Value: fmt.Sprint(r), Stack: string(debug.Stack())}
		}
	}()
	gm := sdk.NewGasMeter(maxBlockGas())
	e.gas = 0
	nctx := e.ctx.WithBlockHeader(hdr).WithBlockHeight(hdr.Height).WithBlockGasMeter(gm).
		WithEventManager(sdk.NewEventManager())
	nctx = nctx.WithConsensusParams(a.GetConsensusParams(nctx))
	req := e.w.BeginReq(hdr)
	nctx = nctx.WithVoteInfos(req.LastCommitInfo.GetVotes())
	e.ctx = nctx
	br := a.BeginBlocker(nctx, req)
	e.lastBlockEvents = append(append([]abci.Event{}, endEvents...), br.Events...)
	return nil
}

// ---------------------------------------------------------------------------------------------
// Seam B

type EnvB struct {
	w               *World
	height          int64
	time            time.Time
	dead            bool
	txCfg           client.TxConfig
	lastBlockEvents []abci.Event
	lastEnd         []abci.Event
	AppHashes       [][]byte
	// RestartAfter > 0: the node's process is restarted after that many commits (see World.Restart).
	RestartAfter int
	// Simulate: every transaction is first run through the node's gas-estimation entry point (BaseApp.Simulate, which
	// executes the handlers on a throw-away branch of the check state), as a node serving client queries does.
	Simulate bool
	// GCBeforeTx: the garbage collector runs (twice, which also empties every sync.Pool) before each transaction - the
	// runtime decides when it runs on a real node.
	GCBeforeTx bool
	// Obs is the observation log used by the determinism check: per transaction code/gas/events/data, per block
	// EndBlock events, AppHash and BeginBlock events, in order.
	Obs []string
}

func fmtEvents(evs []abci.Event) string {
	var b strings.Builder
	for _, e := range evs {
		b.WriteString(e.Type)
		b.WriteByte('{')
		for _, a := range e.Attributes {
			b.Write(a.Key)
			b.WriteByte('=')
			b.Write(a.Value)
			b.WriteByte(';')
		}
		b.WriteByte('}')
	}
	return b.String()
}

// NewEnvB begins block 2 through the real ABCI BeginBlock. The World must be fresh (one EnvB per World).
func (w *World) NewEnvB() *EnvB {
	e := &EnvB{w: w, txCfg: app.MakeEncodingConfig().TxConfig}
	e.height = w.App.LastBlockHeight() + 1
	if w.Cfg.FirstBlockIsInitial {
		e.height = maxI64(1, w.Cfg.StartHeight)
	}
	e.time = FirstBlockTime
	res := w.App.BeginBlock(w.BeginReq(w.Header(e.height, e.time)))
	e.lastBlockEvents = res.Events
	return e
}

func (e *EnvB) W() *World    { return e.w }
func (e *EnvB) Seam() string { return "B" }
func (e *EnvB) Ctx() sdk.Context {
	return e.w.App.BaseApp.NewContext(false, e.w.Header(e.height, e.time))
}
func (e *EnvB) SetBlockGas(g uint64)            {}
func (e *EnvB) BeginEvents() []abci.Event       { return e.lastBlockEvents }
func (e *EnvB) Mutate(fn func(ctx sdk.Context)) { fn(e.Ctx()) }

// SignTx builds a deterministic SIGN_MODE_DIRECT transaction (no random memo).
func (e *EnvB) SignTx(msgs []sdk.Msg, signers []Acct, gas uint64) ([]byte, error) {
	ctx := e.Ctx()
	tb := e.txCfg.NewTxBuilder()
	if err := tb.SetMsgs(msgs...); err != nil {
		return nil, err
	}
	tb.SetGasLimit(gas)
	tb.SetFeeAmount(sdk.NewCoins())
	mode := e.txCfg.SignModeHandler().DefaultMode()
	var sigs []signing.SignatureV2
	type an struct{ num, seq uint64 }
	var ans []an
	for _, s := range signers {
		acc := e.w.App.AccountKeeper.GetAccount(ctx, s.Addr)
		if acc == nil {
			return nil, fmt.Errorf("signer %s has no account", s.Name)
		}
		ans = append(ans, an{acc.GetAccountNumber(), acc.GetSequence()})
		sigs = append(sigs, signing.SignatureV2{
			PubKey:   s.Priv.PubKey(),
			Data:     &signing.SingleSignatureData{SignMode: mode},
			Sequence: acc.GetSequence(),
		})
	}
	if err := tb.SetSignatures(sigs...); err != nil {
		return nil, err
	}
	for i, s := range signers {
		sd := authsigning.SignerData{ChainID: ChainID, AccountNumber: ans[i].num, Sequence: ans[i].seq}
		bz, err := e.txCfg.SignModeHandler().GetSignBytes(mode, sd, tb.GetTx())
		if err != nil {
			return nil, err
		}
		sig, err := s.Priv.Sign(bz)
		if err != nil {
			return nil, err
		}
		sigs[i].Data.(*signing.SingleSignatureData).Signature = sig
	}
	if err := tb.SetSignatures(sigs...); err != nil {
		return nil, err
	}
	return e.txCfg.TxEncoder()(tb.GetTx())
}

const TxGas = 50_000_000

func (e *EnvB) Deliver(msg sdk.Msg) TxResult {
	// the ante handler's ValidateBasicDecorator would reject it; signers of an invalid address panic in
	// GetSigners, so reject here exactly like a client / CheckTx would.
	if err := msg.ValidateBasic(); err != nil {
		return TxResult{Err: err, Stage: "validate", Code: 1}
	}
	var signers []Acct
	for _, s := range msg.GetSigners() {
		found := false
		for _, n := range e.w.Order {
			if e.w.Accts[n].Addr.Equals(s) {
				signers = append(signers, e.w.Accts[n])
				found = true
			}
		}
		if !found {
			return TxResult{Err: fmt.Errorf("harness: no key for signer %s", s), Stage: "sign", Code: 1}
		}
	}
	return e.DeliverSigned([]sdk.Msg{msg}, signers)
}

func (e *EnvB) DeliverMulti(msgs []sdk.Msg) TxResult {
	var signers []Acct
	for _, msg := range msgs {
		if err := msg.ValidateBasic(); err != nil {
			return TxResult{Err: err, Stage: "validate", Code: 1}
		}
		for _, s := range msg.GetSigners() {
			found := false
			for _, have := range signers {
				if have.Addr.Equals(s) {
					found = true
				}
			}
			for _, n := range e.w.Order {
				if !found && e.w.Accts[n].Addr.Equals(s) {
					signers = append(signers, e.w.Accts[n])
					found = true
				}
			}
			if !found {
				return TxResult{Err: fmt.Errorf("harness: no key for signer %s", s), Stage: "sign", Code: 1}
			}
		}
	}
	return e.DeliverSigned(msgs, signers)
}

// DeliverSigned delivers msgs signed by the given accounts (which may differ from GetSigners: C11).
func (e *EnvB) DeliverSigned(msgs []sdk.Msg, signers []Acct) TxResult {
	return e.deliverSignedGas(msgs, signers, TxGas)
}

func (e *EnvB) deliverSignedGas(msgs []sdk.Msg, signers []Acct, gas uint64) TxResult {
	bz, err := e.SignTx(msgs, signers, gas)
	if err != nil {
		return TxResult{Err: err, Stage: "sign", Code: 1}
	}
	if e.GCBeforeTx {
		runtime.GC()
		runtime.GC()
	}
	if e.Simulate {
		func() {
			defer func() { _ = recover() }()
			_, _, _ = e.w.App.Simulate(bz)
		}()
	}
	r := e.w.App.DeliverTx(abci.RequestDeliverTx{Tx: bz})
	e.Obs = append(e.Obs, fmt.Sprintf("tx h=%d code=%d gasUsed=%d gasWanted=%d data=%x", e.height, r.Code, r.GasUsed, r.GasWanted, r.Data), "tx-events "+fmtEvents(r.Events))
	out := TxResult{Code: r.Code, Log: r.Log, GasUsed: r.GasUsed, GasWanted: r.GasWanted, Events: r.Events}
	if r.Code != 0 {
		out.Err = fmt.Errorf("code=%d codespace=%s log=%s", r.Code, r.Codespace, r.Log)
		out.Stage = "deliver"
		if len(r.Log) >= 9 && contains(r.Log, "panic") {
			out.Panicked = true
		}
		return out
	}
	var md sdk.TxMsgData
	if err := proto.Unmarshal(r.Data, &md); err == nil && len(md.Data) >= 1 {
		out.RespData = md.Data[0].Data
	}
	return out
}

func contains(s, sub string) bool {
	for i := 0; i+len(sub) <= len(s); i++ {
		if s[i:i+len(sub)] == sub {
			return true
		}
	}
	return false
}

func (e *EnvB) NextBlock(dT time.Duration) (bp *BlockPanic) {
	if e.dead {
		return &BlockPanic{Phase: "dead", Height: e.height, Value: "environment already panicked"}
	}
	phase := "EndBlock"
	h := e.height
	defer func() {
		if r := recover(); r != nil {
			e.dead = true
			bp = &BlockPanic{Phase: phase, Height: h, Value: fmt.Sprint(r), Stack: string(debug.Stack())}
		}
	}()
	er := e.w.App.EndBlock(abci.RequestEndBlock{Height: e.height})
	phase = "Commit"
	cr := e.w.App.Commit()
	e.AppHashes = append(e.AppHashes, cr.Data)
	e.Obs = append(e.Obs, fmt.Sprintf("endblock-events h=%d %s", e.height, fmtEvents(er.Events)), fmt.Sprintf("apphash h=%d %x", e.height, cr.Data))
	e.height++
	e.time = e.time.Add(dT)
	if e.RestartAfter > 0 && len(e.AppHashes) == e.RestartAfter {
		phase = "restart"
		e.w.Restart()
	}
	phase = "BeginBlock"
	h = e.height
	br := e.w.App.BeginBlock(e.w.BeginReq(e.w.Header(e.height, e.time)))
	e.Obs = append(e.Obs, fmt.Sprintf("beginblock-events h=%d %s", e.height, fmtEvents(br.Events)))
	e.lastBlockEvents = append(append([]abci.Event{}, er.Events...), br.Events...)
	return nil
}

// Finish ends and commits the current block, returning the final AppHash.
func (e *EnvB) Finish() []byte {
	e.w.App.EndBlock(abci.RequestEndBlock{Height: e.height})
	cr := e.w.App.Commit()
	e.Obs = append(e.Obs, fmt.Sprintf("apphash h=%d %x", e.height, cr.Data))
	e.dead = true
	return cr.Data
}
