package scen

import (
	"bytes"
	"crypto/sha256"
	"encoding/hex"
	"encoding/json"
	"fmt"
	"strings"

	sdk "github.com/cosmos/cosmos-sdk/types"
	"github.com/wealdtech/go-merkletree/v2"
	"github.com/wealdtech/go-merkletree/v2/sha3"

	storagetypes "github.com/jackalLabs/canine-chain/v4/x/storage/types"

	"verif/harness/world"
)

// sfile is a file as an honest holder sees it: the bytes, the chunking and the Merkle tree over
// sha256(index || hex(chunk)) leaves with SHA3-512 inner nodes (the documented construction).
type sfile struct {
	data   []byte
	chunk  int64
	chunks [][]byte
	leaves [][]byte
	tree   *merkletree.MerkleTree
	merkle []byte
}

func leafOf(index int, chunk []byte) []byte {
	h := sha256.Sum256([]byte(fmt.Sprintf("%d%s", index, hex.EncodeToString(chunk))))
	return h[:]
}

func mkFile(data []byte, chunkSize int64) *sfile {
	f := &sfile{data: data, chunk: chunkSize}
	for i := int64(0); i < int64(len(data)); i += chunkSize {
		end := i + chunkSize
		if end > int64(len(data)) {
			end = int64(len(data))
		}
		c := data[i:end]
		f.chunks = append(f.chunks, c)
		f.leaves = append(f.leaves, leafOf(len(f.chunks)-1, c))
	}
	t, err := merkletree.NewUsing(f.leaves, sha3.New512(), false)
	if err != nil {
		panic(err)
	}
	f.tree = t
	f.merkle = t.Root()
	return f
}

func seqBytes(n int, seed byte) []byte {
	b := make([]byte, n)
	for i := range b {
		b[i] = seed + byte(i*7)
	}
	return b
}

// proofFor returns (item, hashList JSON) an honest holder derives for chunk i.
func (f *sfile) proofFor(i int) ([]byte, []byte) {
	p, err := f.tree.GenerateProof(f.leaves[i], 0)
	if err != nil {
		panic(err)
	}
	bz, err := json.Marshal(p)
	if err != nil {
		panic(err)
	}
	return f.chunks[i], bz
}

// libVerifies checks a payload directly with the Merkle library (not through the keeper).
func libVerifies(root []byte, chunkIndex int64, item []byte, hashList []byte) bool {
	var p merkletree.Proof
	if err := json.Unmarshal(hashList, &p); err != nil {
		return false
	}
	ok, err := merkletree.VerifyProofUsing(leafOf(int(chunkIndex), item), false, &p, [][]byte{root}, sha3.New512())
	return err == nil && ok
}

// truncatedProof drops the last sibling hash of a proof.
func truncatedProof(hashList []byte) []byte {
	var p merkletree.Proof
	if err := json.Unmarshal(hashList, &p); err != nil {
		panic(err)
	}
	if len(p.Hashes) > 0 {
		p.Hashes = p.Hashes[:len(p.Hashes)-1]
	}
	bz, _ := json.Marshal(&p)
	return bz
}

func postProofOK(w *world.World, res world.TxResult) (bool, string) {
	if !res.OK() {
		return false, fmt.Sprint(res.Err)
	}
	var r storagetypes.MsgPostProofResponse
	if err := w.Cdc().Unmarshal(res.RespData, &r); err != nil {
		return false, "undecodable response: " + err.Error()
	}
	return r.Success, r.ErrorMessage
}

func storeEqual(a, b []world.KV) bool {
	if len(a) != len(b) {
		return false
	}
	for i := range a {
		if !bytes.Equal(a[i].K, b[i].K) || !bytes.Equal(a[i].V, b[i].V) {
			return false
		}
	}
	return true
}

func storeDiffKeys(a, b []world.KV) []string {
	ma := map[string]string{}
	for _, kv := range a {
		ma[string(kv.K)] = string(kv.V)
	}
	var out []string
	for _, kv := range b {
		v, ok := ma[string(kv.K)]
		if !ok {
			out = append(out, "+"+string(kv.K))
		} else if v != string(kv.V) {
			out = append(out, "~"+string(kv.K))
		}
		delete(ma, string(kv.K))
	}
	for k := range ma {
		out = append(out, "-"+k)
	}
	return out
}

func getFile(w *world.World, ctx sdk.Context, merkle []byte, owner string, start int64) (storagetypes.UnifiedFile, bool) {
	return w.App.StorageKeeper.GetFile(ctx, merkle, owner, start)
}

// canonAddr returns the canonical (lower-case) spelling of a bech32 address, or the string itself if it is none.
func canonAddr(a string) string {
	if acc, err := sdk.AccAddressFromBech32(a); err == nil {
		return acc.String()
	}
	return a
}

// acctListed: the file's prover list holds an entry for this account, under whatever spelling of its address.
func acctListed(f storagetypes.UnifiedFile, acct sdk.AccAddress) bool {
	for _, pk := range f.Proofs {
		if i := strings.Index(pk, "/"); i > 0 {
			if acc, err := sdk.AccAddressFromBech32(pk[:i]); err == nil && acc.Equals(acct) {
				return true
			}
		}
	}
	return false
}

// proverListed: the file's prover list holds an entry for exactly this spelling of the prover (read from the list
// entries themselves, "<prover>/<merkle>/<owner>/<start>", not through the chain's own lookup helper).
func proverListed(f storagetypes.UnifiedFile, prover string) bool {
	for _, pk := range f.Proofs {
		if strings.HasPrefix(pk, prover+"/") {
			return true
		}
	}
	return false
}
