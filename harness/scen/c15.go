package scen

import (
	"fmt"
	"strings"
	"time"

	"github.com/cosmos/cosmos-sdk/codec"
	sdk "github.com/cosmos/cosmos-sdk/types"
	banktypes "github.com/cosmos/cosmos-sdk/x/bank/types"

	"github.com/jackalLabs/canine-chain/v4/app"
	storagetypes "github.com/jackalLabs/canine-chain/v4/x/storage/types"

	"verif/harness/mc"
	"verif/harness/world"
)

// C15 — provider collateral is fully backed and returned exactly once.
// Seeded: provider A starts registered and holding three files it will stop proving.
// Legacy: the genesis state holds a provider L without a collateral record (registered before collateral existed).
type C15 struct{ Seeded, Legacy bool }

const c15Price = int64(1_000_000)

type c15Model struct {
	Price    int64            // current collateral price according to the harness' own record of parameter changes
	Blocks   int              // NextBlock events so far (bounded so that the space saturates)
	Rec      map[string]int64 // provider -> amount locked at registration
	Buys     int              // storage purchases so far (bounded)
	Claimers int              // claimer authorisations so far (bounded)
}

func (m c15Model) Key() []byte { return jkey(m) }
func (m c15Model) clone() c15Model {
	n := c15Model{Price: m.Price, Blocks: m.Blocks, Rec: map[string]int64{}, Buys: m.Buys, Claimers: m.Claimers}
	for k, v := range m.Rec {
		n.Rec[k] = v
	}
	return n
}

func (C15) ID() string { return "C15" }
func (s C15) Name() string {
	if s.Seeded {
		return "C15/collateral-lapsing-provider"
	}
	if s.Legacy {
		return "C15/collateral-legacy-provider"
	}
	return "C15/collateral"
}

var c15Files = []*sfile{mkFile(seqBytes(8, 61), 4), mkFile(seqBytes(8, 62), 4), mkFile(seqBytes(8, 63), 4)}

func (s C15) Config() world.Config {
	if s.Legacy {
		return world.Config{
			Accounts: []string{"A", "B", "L"},
			Storage:  func(p *storagetypes.Params) { p.CollateralPrice = c15Price },
			GenesisMod: func(cdc codec.JSONCodec, gs app.GenesisState) {
				var g storagetypes.GenesisState
				cdc.MustUnmarshalJSON(gs[storagetypes.ModuleName], &g)
				l := world.MakeAcct("L").Bech
				g.ProvidersList = append(g.ProvidersList, storagetypes.Providers{Address: l, Ip: "https://legacy.example.com", Totalspace: "1000000", BurnedContracts: "0", Creator: l, KeybaseIdentity: "kb", AuthClaimers: []string{}})
				gs[storagetypes.ModuleName] = cdc.MustMarshalJSON(&g)
			},
		}
	}
	if s.Seeded {
		return world.Config{
			Accounts: []string{"A", "B", "C", "D"},
			Storage: func(p *storagetypes.Params) {
				p.CollateralPrice, p.ChunkSize, p.ProofWindow, p.CheckWindow = c15Price, 4, 2, 2
			},
		}
	}
	return world.Config{
		Accounts: []string{"A", "B", "C", "D"},
		// D can afford the base price and half of it, but not the doubled price
		Balances: map[string]sdk.Coins{"D": sdk.NewCoins(sdk.NewInt64Coin("ujkl", c15Price*3/2))},
		Storage:  func(p *storagetypes.Params) { p.CollateralPrice = c15Price },
	}
}
func (C15) Stores() []string { return []string{"storage", "bank"} }
func (s C15) Init(env world.Env) mc.Model {
	if s.Legacy {
		if _, ok := env.W().App.StorageKeeper.GetProviders(env.Ctx(), env.W().A("L").Bech); !ok {
			panic("harness: the legacy provider is not in the genesis state")
		}
		return c15Model{Price: c15Price, Rec: map[string]int64{"L": 0}}
	}
	if s.Seeded {
		w := env.W()
		a, c := w.A("A").Bech, w.A("C").Bech
		mustOK(env.Deliver(storagetypes.NewMsgInitProvider(a, "https://A.example.com", 1_000_000, "kb")), "InitProvider")
		mustOK(env.Deliver(storagetypes.NewMsgBuyStorage(c, c, 30, 1_000_000_000, "ujkl")), "BuyStorage")
		h := env.Ctx().BlockHeight()
		for _, f := range c15Files {
			mustOK(env.Deliver(storagetypes.NewMsgPostFile(c, f.merkle, int64(len(f.data)), 0, 0, 1, "{}")), "PostFile")
			item, hl := f.proofFor(0)
			if ok, e := postProofOK(w, env.Deliver(storagetypes.NewMsgPostProof(a, f.merkle, c, h, item, hl, 0))); !ok {
				panic("seed proof: " + e)
			}
		}
		return c15Model{Price: c15Price, Rec: map[string]int64{"A": c15Price}, Buys: 1}
	}
	// a 32-byte account (the length of contract and interchain accounts) whose address string begins with A's complete
	// address string; it is funded here and acts through unsigned (contract-dispatched) messages
	w := env.W()
	long, err := sdk.AccAddressFromBech32(c18LongAddr(w.A("A").Bech))
	if err != nil {
		panic(err)
	}
	mustOK(env.Deliver(banktypes.NewMsgSend(w.A("C").Addr, long, sdk.NewCoins(sdk.NewInt64Coin("ujkl", 5*c15Price)))), "fund the long account")
	return c15Model{Price: c15Price, Rec: map[string]int64{}}
}

var c15Who = []string{"A", "B", "D"}

func (s C15) Events(env world.Env, m mc.Model) []string {
	var evs []string
	if s.Legacy {
		evs = append(evs, "Init:A", "Shutdown:A", "Init:L", "Shutdown:L", "Init:B", "Price:2")
		if m.(c15Model).Blocks < 1 {
			evs = append(evs, "NextBlock")
		}
		return evs
	}
	if s.Seeded { // the provider never proves again: reward blocks drop and burn it on all three files
		evs = append(evs, "Init:A", "Shutdown:A", "Init:B", "Price:2")
		if m.(c15Model).Blocks < 6 {
			evs = append(evs, "NextBlock")
		}
		return evs
	}
	for _, x := range c15Who {
		evs = append(evs, "Init:"+x)
	}
	for _, x := range c15Who {
		evs = append(evs, "Shutdown:"+x)
	}
	// account B also signs with the (valid) all-capitals spelling of its address
	evs = append(evs, "InitUpper:B", "ShutdownUpper:B")
	evs = append(evs, "InitLong:A", "ShutdownLong:A") // the 32-byte account whose address string extends A's
	evs = append(evs, "InitZero:A", "InitZero:B")     // a registration that offers no space at all
	evs = append(evs, "InitMoved:A")                  // the same account announces itself again from another host
	evs = append(evs, "Price:1", "Price:2", "Price:half")
	if m.(c15Model).Blocks < 1 {
		evs = append(evs, "NextBlock")
	}
	// a provider authorises another account to claim for it; that account is no provider and has nothing to shut down
	if m.(c15Model).Claimers < 1 {
		evs = append(evs, "AddClaimer:A:C")
	}
	evs = append(evs, "Shutdown:C")
	if m.(c15Model).Buys < 1 { // other money moving through the storage module: the escrow is not its source
		evs = append(evs, "BuyStorage:C:none", "BuyStorage:C:A")
	}
	return evs
}

func (C15) Apply(env world.Env, mm mc.Model, ev string) mc.Step {
	w := env.W()
	m := mm.(c15Model).clone()
	p := split(ev)
	escrow := modAddr(storagetypes.CollateralCollectorName).String()
	k := w.App.StorageKeeper
	sumCollat := func(ctx sdk.Context) sdk.Int {
		s := sdk.ZeroInt()
		for _, c := range k.GetAllCollateral(ctx) {
			s = s.AddRaw(c.Amount)
		}
		return s
	}
	before := w.Balances(env.Ctx())
	sumBefore := sumCollat(env.Ctx())
	st := mc.Step{Outcome: "rejected"}
	var vs []mc.Viol

	switch p[0] {
	case "NextBlock":
		if bp := env.NextBlock(6 * time.Second); bp != nil {
			vs = append(vs, viol("no-panic", "block-panic "+bp.Phase, "block processing panicked: %s", bp.Value))
		}
		st.Outcome = "block"
		m.Blocks++
	case "Price":
		np := c15Price
		if p[1] == "2" {
			np = 2 * c15Price
		} else if p[1] == "half" {
			np = c15Price / 2
		}
		env.Mutate(func(ctx sdk.Context) {
			ps := k.GetParams(ctx)
			ps.CollateralPrice = np
			k.SetParams(ctx, ps)
		})
		m.Price = np
		st.Outcome = "ok"
	case "AddClaimer":
		if env.Deliver(storagetypes.NewMsgAddClaimer(w.A(p[1]).Bech, w.A(p[2]).Bech)).OK() {
			st.Outcome = "ok"
			m.Claimers++
			st.Exercised = append(st.Exercised, "claimer-authorised")
		}
	case "BuyStorage":
		msg := storagetypes.NewMsgBuyStorage(w.A(p[1]).Bech, w.A(p[1]).Bech, 30, 1_000_000_000, "ujkl")
		if p[2] != "none" {
			msg.Referral = w.A(p[2]).Bech
		}
		m.Buys++
		st.Exercised = append(st.Exercised, "storage-purchase")
		if env.Deliver(msg).OK() {
			st.Outcome = "ok"
		}
	case "Init", "InitUpper", "InitLong", "InitZero", "InitMoved":
		who := w.A(p[1])
		creator := who.Bech
		payer := who.Bech
		if p[0] == "InitUpper" {
			creator = strings.ToUpper(creator)
		}
		if p[0] == "InitLong" {
			creator = c18LongAddr(who.Bech)
			payer = creator
		}
		msg := storagetypes.NewMsgInitProvider(creator, "https://"+p[1]+".example.com", 1_000_000, "kb")
		if p[0] == "InitZero" {
			msg.TotalSpace = 0
		}
		if p[0] == "InitMoved" {
			msg.Ip = "https://moved." + p[1] + ".example.org"
		}
		var res world.TxResult
		if p[0] == "InitLong" {
			res = env.DeliverUnsigned(msg)
		} else {
			res = env.Deliver(msg)
		}
		after := w.Balances(env.Ctx())
		d := world.BalDiff(before, after)
		id := p[1]
		if p[0] == "InitUpper" {
			id += "^" // records are keyed by the spelling used: a separate registration of the same account
		}
		if p[0] == "InitLong" {
			id += "~" // another account altogether
		}
		_, registered := m.Rec[id]
		canPay := before[payer].AmountOf("ujkl").GTE(sdk.NewInt(m.Price))
		expectOK := !registered && canPay
		st.Exercised = append(st.Exercised, "init")
		if res.OK() != expectOK {
			vs = append(vs, viol("init-outcome", fmt.Sprintf("accepted=%v expected=%v registered=%v canPay=%v", res.OK(), expectOK, registered, canPay),
				"InitProvider by %s: err=%v", p[1], res.Err))
		}
		if res.OK() {
			st.Outcome = "ok"
			m.Rec[id] = m.Price
			if !deltaOf(d, payer, "ujkl").Equal(sdk.NewInt(-m.Price)) || !deltaOf(d, escrow, "ujkl").Equal(sdk.NewInt(m.Price)) || len(d) != 2 {
				vs = append(vs, viol("init-locks-current-price", "wrong-transfer", "price %d, balance changes %s", m.Price, diffString(w, d, map[string]string{escrow: "escrow"})))
			}
			c, found := k.GetCollateral(env.Ctx(), creator)
			if !found || c.Amount != m.Price {
				vs = append(vs, viol("init-records-price", "record", "collateral record found=%v amount=%d, price %d", found, c.Amount, m.Price))
			}
			if _, ok := k.GetProviders(env.Ctx(), creator); !ok {
				vs = append(vs, viol("init-registers", "no-provider", "no provider record after successful init"))
			}
		} else if len(d) != 0 {
			vs = append(vs, viol("failed-init-moves-nothing", "moved", "balance changes %s", diffString(w, d, nil)))
		}
	case "Shutdown", "ShutdownUpper", "ShutdownLong":
		who := w.A(p[1])
		creator := who.Bech
		payee := who.Bech
		if p[0] == "ShutdownUpper" {
			creator = strings.ToUpper(creator)
		}
		var res world.TxResult
		if p[0] == "ShutdownLong" {
			creator = c18LongAddr(who.Bech)
			payee = creator
			res = env.DeliverUnsigned(storagetypes.NewMsgShutdownProvider(creator))
		} else {
			res = env.Deliver(storagetypes.NewMsgShutdownProvider(creator))
		}
		after := w.Balances(env.Ctx())
		d := world.BalDiff(before, after)
		id := p[1]
		if p[0] == "ShutdownUpper" {
			id += "^"
		}
		if p[0] == "ShutdownLong" {
			id += "~"
		}
		amt, registered := m.Rec[id]
		st.Exercised = append(st.Exercised, "shutdown")
		if registered {
			st.Exercised = append(st.Exercised, "shutdown-registered")
		}
		if res.OK() != registered {
			vs = append(vs, viol("shutdown-outcome", fmt.Sprintf("accepted=%v registered=%v", res.OK(), registered), "ShutdownProvider by %s: err=%v", p[1], res.Err))
		}
		if res.OK() {
			st.Outcome = "ok"
			delete(m.Rec, id)
			if amt == 0 { // a provider without a collateral record has nothing to get back
				if len(d) != 0 {
					vs = append(vs, viol("shutdown-returns-recorded", "wrong-transfer", "nothing recorded, balance changes %s", diffString(w, d, map[string]string{escrow: "escrow"})))
				}
			} else if !deltaOf(d, payee, "ujkl").Equal(sdk.NewInt(amt)) || !deltaOf(d, escrow, "ujkl").Equal(sdk.NewInt(-amt)) || len(d) != 2 {
				vs = append(vs, viol("shutdown-returns-recorded", "wrong-transfer", "recorded %d (current price %d), balance changes %s", amt, m.Price, diffString(w, d, map[string]string{escrow: "escrow"})))
			}
			if _, f := k.GetCollateral(env.Ctx(), creator); f {
				vs = append(vs, viol("shutdown-removes", "collateral-left", "collateral record still present"))
			}
			if _, f := k.GetProviders(env.Ctx(), creator); f {
				vs = append(vs, viol("shutdown-removes", "provider-left", "provider record still present"))
			}
		} else if len(d) != 0 {
			vs = append(vs, viol("failed-shutdown-moves-nothing", "moved", "balance changes %s", diffString(w, d, nil)))
		}
	}
	// backing, delta form and absolute form
	after := w.Balances(env.Ctx())
	sumAfter := sumCollat(env.Ctx())
	dEsc := after[escrow].AmountOf("ujkl").Sub(before[escrow].AmountOf("ujkl"))
	if !dEsc.Equal(sumAfter.Sub(sumBefore)) {
		vs = append(vs, viol("escrow-backs-collateral", "delta "+p[0], "escrow changed by %s, recorded collateral by %s", dEsc, sumAfter.Sub(sumBefore)))
	}
	modelSum := int64(0)
	for _, v := range m.Rec {
		modelSum += v
	}
	if !sumAfter.Equal(sdk.NewInt(modelSum)) {
		vs = append(vs, viol("records-match-model", "sum "+p[0], "recorded collateral %s, model %d", sumAfter, modelSum))
	}
	st.Model = m
	st.Viols = vs
	return st
}

// ---- volume: more providers than one page of the SDK's paginated store walk (100) ----

func c15VolumeAccounts(n int) []string {
	var out []string
	for i := 0; i < n; i++ {
		out = append(out, fmt.Sprintf("v%03d", i))
	}
	return out
}

func c15VolumeEnum() mc.Enum {
	cfg := world.Config{Accounts: c15VolumeAccounts(130), Storage: func(p *storagetypes.Params) { p.CollateralPrice = c15Price }}
	e := mc.Enum{Prop: "C15", Name: "C15/volume", Cfg: cfg, ConfirmB: true, ConfB: 1}
	for _, n := range []int{99, 100, 101, 130} {
		n := n
		e.Cases = append(e.Cases, mc.Case{Desc: fmt.Sprintf("providers=%d", n), Run: func(env world.Env) mc.CaseResult {
			w := env.W()
			k := w.App.StorageKeeper
			cr := mc.CaseResult{Class: "ok", Nontrivial: true}
			escrow := modAddr(storagetypes.CollateralCollectorName)
			names := c15VolumeAccounts(n)
			for i, v := range names {
				mustOK(env.Deliver(storagetypes.NewMsgInitProvider(w.A(v).Bech, fmt.Sprintf("https://node%d.volume.com", i), 1_000_000, "kb")), "InitProvider")
			}
			check := func(when string, want int) bool {
				sum, cnt := sdk.ZeroInt(), 0
				for _, c := range k.GetAllCollateral(env.Ctx()) {
					sum = sum.AddRaw(c.Amount)
					cnt++
				}
				esc := w.Bal(env.Ctx(), escrow, "ujkl")
				if !esc.Equal(sdk.NewInt(int64(want)*c15Price)) || !sum.Equal(esc) || cnt != want {
					cr.Viols = append(cr.Viols, viol("escrow-backs-collateral", "volume "+when, "%s, %d providers registered: escrow holds %s, the collateral listing has %d records summing to %s", when, want, esc, cnt, sum))
					return false
				}
				return true
			}
			if !check("after registration", n) {
				return cr
			}
			if err := restartModule(env, "storage"); err != nil {
				cr.Viols = append(cr.Viols, viol("escrow-backs-collateral", "volume restart-failed", "export -> import of the storage module failed: %v", err))
				return cr
			}
			if !check("after a restart of the module from its exported genesis", n) {
				return cr
			}
			for i, v := range names {
				before := w.Bal(env.Ctx(), w.A(v).Addr, "ujkl")
				res := env.Deliver(storagetypes.NewMsgShutdownProvider(w.A(v).Bech))
				got := w.Bal(env.Ctx(), w.A(v).Addr, "ujkl").Sub(before)
				if !res.OK() || !got.Equal(sdk.NewInt(c15Price)) {
					cr.Viols = append(cr.Viols, viol("shutdown-returns-recorded", "volume", "provider %d of %d: shutdown accepted=%v, returned %s of %d (err %v)", i+1, n, res.OK(), got, c15Price, res.Err))
					return cr
				}
			}
			check("after every provider shut down", 0)
			return cr
		}})
	}
	return e
}

func init() {
	CaseReplayers["C15/volume"] = func(r *mc.Run, c string) { r.ReplayCase(c15VolumeEnum(), c) }
}
