package scen

import (
	"crypto/sha256"
	"encoding/hex"
	"encoding/json"
	"fmt"
	"sort"
	"strings"

	sdk "github.com/cosmos/cosmos-sdk/types"

	fttypes "github.com/jackalLabs/canine-chain/v4/x/filetree/types"

	"verif/harness/mc"
	"verif/harness/world"
)

// C10 — file-tree entries change only by their owner or, for posts, the folder's editors.
// The oracle is a full functional reference: from the pre-state and the event the harness computes, with its own
// SHA-256 helpers and its own principal table, whether the signer has the right and what the post-state of the
// whole Files store must be; the real post-state must equal it, and an unauthorised message must fail.
type C10 struct {
	Full bool // full (crafted-field) menu or the well-formed sub-menu
}

func hexsha(s string) string {
	h := sha256.Sum256([]byte(s))
	return hex.EncodeToString(h[:])
}

// harness-side identity computations (independent of x/filetree/keeper/access.go)
func ftAcct(bech string) string               { return hexsha(bech) }
func ftOwner(path, acct string) string        { return hexsha("o" + path + acct) }
func ftViewerID(tracking, bech string) string { return hexsha("v" + tracking + bech) }
func ftEditorID(tracking, bech string) string { return hexsha("e" + tracking + bech) }
func ftAdd(parent, childHash string) string   { return hexsha(parent + childHash) }
func ftMerkle(path string) string {
	path = strings.TrimSuffix(path, "/")
	total := ""
	for _, c := range strings.Split(path, "/") {
		total = hexsha(total + hexsha(c))
	}
	return total
}

var c10Who = []string{"O", "E", "V", "S"}

type c10Model struct{ N int }

func (m c10Model) Key() []byte { return nil }

func (s C10) ID() string { return "C10" }
func (s C10) Name() string {
	if s.Full {
		return "C10/filetree-crafted"
	}
	return "C10/filetree"
}
func (s C10) Config() world.Config { return world.Config{Accounts: c10Who} }
func (s C10) Stores() []string     { return []string{fttypes.StoreKey} }

func jmap(m map[string]string) string {
	bz, _ := json.Marshal(m)
	return string(bz)
}

const c10Track = "track-1"

func (s C10) Init(env world.Env) mc.Model {
	w := env.W()
	o, e, v := w.A("O").Bech, w.A("E").Bech, w.A("V").Bech
	must := func(r world.TxResult) {
		if !r.OK() {
			panic(fmt.Sprintf("C10 init failed: %v", r.Err))
		}
	}
	// O's root: editors O and E, viewers O and V
	must(env.Deliver(fttypes.NewMsgProvisionFileTree(o,
		jmap(map[string]string{ftEditorID(c10Track, o): "ko", ftEditorID(c10Track, e): "ke"}),
		jmap(map[string]string{ftViewerID(c10Track, o): "ko", ftViewerID(c10Track, v): "kv"}), c10Track)))
	// E's root: only E
	must(env.Deliver(fttypes.NewMsgProvisionFileTree(e,
		jmap(map[string]string{ftEditorID(c10Track, e): "ke"}), jmap(map[string]string{ftViewerID(c10Track, e): "ke"}), c10Track)))
	// a child under O's root, posted by O, editors O only, viewers O and V
	root := ftMerkle("s")
	must(env.Deliver(fttypes.NewMsgPostFile(o, ftAcct(o), root, hexsha("c1"), "contents-0",
		jmap(map[string]string{ftViewerID(c10Track, o): "ko", ftViewerID(c10Track, v): "kv"}),
		jmap(map[string]string{ftEditorID(c10Track, o): "ko"}), c10Track)))
	return c10Model{}
}

// paths used by the alphabet
func c10Path(label string) string {
	root := ftMerkle("s")
	switch label {
	case "root":
		return root
	case "c1":
		return ftAdd(root, hexsha("c1"))
	case "c2":
		return ftAdd(root, hexsha("c2"))
	case "c1c1":
		return ftAdd(ftAdd(root, hexsha("c1")), hexsha("c1"))
	}
	panic(label)
}

func (s C10) Events(env world.Env, mm mc.Model) []string {
	var evs []string
	add := func(f string, a ...interface{}) { evs = append(evs, fmt.Sprintf(f, a...)) }
	accts := []string{"O", "E"}
	ownerForms := []string{"ok"}
	acctForms := []string{"ok"}
	if s.Full {
		ownerForms = []string{"ok", "self", "slash", "concat", "x"}
		acctForms = []string{"ok", "bech", "slash", "x"}
	}
	for _, x := range c10Who {
		if s.Full { // q: a well-formed post whose viewer map gives the owner's id a key full of JSON metacharacters
			for _, a := range accts {
				add("Post:%s:root:%s:q:c1", x, a)
				add("Post:%s:root:%s:own:c2", x, a) // Account = owner address of the root instead of the hashed account
			}
		}
		add("Provision:%s", x)
		for _, parent := range []string{"root", "c1"} {
			for _, a := range accts {
				for _, af := range acctForms {
					for _, child := range []string{"c1", "c2"} {
						if parent == "c1" && child == "c2" {
							continue
						}
						add("Post:%s:%s:%s:%s:%s", x, parent, a, af, child)
					}
				}
			}
		}
		for _, path := range []string{"root", "c1"} {
			for _, a := range accts {
				for _, af := range acctForms {
					add("Delete:%s:%s:%s:%s", x, path, a, af)
				}
				for _, af := range acctForms {
					for _, n := range []string{"E", "S"} {
						add("ChangeOwner:%s:%s:%s:%s:%s", x, path, a, af, n)
					}
				}
				if s.Full { // the new owner given as a plain address instead of the hashed account: the entry then belongs to nobody
					add("ChangeOwnerPlain:%s:%s:%s:ok:E", x, path, a)
				}
				for _, of := range ownerForms {
					add("AddViewers:%s:%s:%s:%s:S", x, path, a, of)
					add("AddEditors:%s:%s:%s:%s:S", x, path, a, of)
					add("RemoveViewers:%s:%s:%s:%s:V", x, path, a, of)
					add("RemoveEditors:%s:%s:%s:%s:E", x, path, a, of)
					add("ResetViewers:%s:%s:%s:%s", x, path, a, of)
					add("ResetEditors:%s:%s:%s:%s", x, path, a, of)
				}
				if s.Full {
					add("AddViewers:%s:%s:%s:ok:S+V/short", x, path, a) // two ids, one key: handler panics => failed tx
					add("AddEditors:%s:%s:%s:ok:S+V", x, path, a)
					add("AddEditors:%s:%s:%s:ok:S^", x, path, a) // grants an id that differs from S's editor id only in case
					add("AddViewers:%s:%s:%s:ok:S^", x, path, a)
					// an id that has an existing viewer's / editor's id as a proper prefix, granted and revoked again
					add("AddViewers:%s:%s:%s:ok:V~", x, path, a)
					add("RemoveViewers:%s:%s:%s:ok:V~", x, path, a)
					add("AddEditors:%s:%s:%s:ok:E~", x, path, a)
					add("RemoveEditors:%s:%s:%s:ok:O+E~", x, path, a)
					add("RemoveViewers:%s:%s:%s:ok:V+O", x, path, a)
				}
			}
		}
	}
	return evs
}

type ftStore map[string]fttypes.Files

func ftSnapshot(w *world.World, ctx sdk.Context) ftStore {
	out := ftStore{}
	for _, f := range w.App.FileTreeKeeper.GetAllFiles(ctx) {
		out[f.Address+"/"+f.Owner] = f
	}
	return out
}

func (st ftStore) clone() ftStore {
	n := ftStore{}
	for k, v := range st {
		n[k] = v
	}
	return n
}

func ftDiff(w *world.World, want, got ftStore) string {
	var out []string
	for k, f := range want {
		g, ok := got[k]
		if !ok {
			out = append(out, "missing "+ftLabel(w, f))
		} else if !ftSame(g, f) {
			out = append(out, fmt.Sprintf("differs %s: want %+v got %+v", ftLabel(w, f), f, g))
		}
	}
	for k, g := range got {
		if _, ok := want[k]; !ok {
			out = append(out, "unexpected "+ftLabel(w, g))
		}
	}
	sort.Strings(out)
	return strings.Join(out, "; ")
}

// ftSame compares two entries; access lists are compared as maps (their JSON text may be formatted differently).
func ftSame(a, b fttypes.Files) bool {
	if a.Address != b.Address || a.Contents != b.Contents || a.Owner != b.Owner || a.TrackingNumber != b.TrackingNumber {
		return false
	}
	same := func(x, y string) bool {
		mx, okx := parseAccess(x)
		my, oky := parseAccess(y)
		if !okx || !oky {
			return x == y
		}
		if len(mx) != len(my) {
			return false
		}
		for k, v := range mx {
			if w, ok := my[k]; !ok || w != v {
				return false
			}
		}
		return true
	}
	return same(a.ViewingAccess, b.ViewingAccess) && same(a.EditAccess, b.EditAccess)
}

func ftLabel(w *world.World, f fttypes.Files) string {
	pl := f.Address[:6]
	for _, l := range []string{"root", "c1", "c2", "c1c1"} {
		if c10Path(l) == f.Address {
			pl = l
		}
	}
	return pl + "@" + ftOwnerPrincipal(w, f)
}

// ftOwnerPrincipal: which principal owns the stored entry according to the harness' own hashing.
func ftOwnerPrincipal(w *world.World, f fttypes.Files) string {
	for _, p := range c10Who {
		if ftOwner(f.Address, ftAcct(w.A(p).Bech)) == f.Owner {
			return p
		}
	}
	return "nobody"
}

func parseAccess(s string) (map[string]string, bool) {
	m := map[string]string{}
	if err := json.Unmarshal([]byte(s), &m); err != nil {
		return nil, false
	}
	return m, true
}

func (s C10) Apply(env world.Env, mm mc.Model, ev string) mc.Step {
	w := env.W()
	p := split(ev)
	x := w.A(p[1])
	before := ftSnapshot(w, env.Ctx())
	want := before.clone()
	authorised := false
	var msg sdk.Msg
	kind := p[0]

	acctField := func(a, form string) string {
		h := ftAcct(w.A(a).Bech)
		switch form {
		case "ok", "q":
			return h
		case "own": // the owner address of O's root, i.e. the form the viewer/editor messages take as FileOwner
			return ftOwner(c10Path("root"), h)
		case "bech":
			return w.A(a).Bech
		case "slash":
			return h + "/"
		case "x":
			return "x"
		}
		panic(form)
	}
	ownerField := func(path, a, form string) string {
		o := ftOwner(path, ftAcct(w.A(a).Bech))
		switch form {
		case "ok":
			return o
		case "self":
			return ftOwner(path, ftAcct(x.Bech))
		case "slash":
			return o + "/"
		case "concat":
			return o + "/" + ftOwner(path, ftAcct(x.Bech))
		case "x":
			return "x"
		}
		panic(form)
	}

	switch kind {
	case "Provision":
		ed := jmap(map[string]string{ftEditorID(c10Track, x.Bech): "k" + p[1]})
		vi := jmap(map[string]string{ftViewerID(c10Track, x.Bech): "k" + p[1]})
		msg = fttypes.NewMsgProvisionFileTree(x.Bech, ed, vi, c10Track)
		authorised = true
		root := c10Path("root")
		f := fttypes.Files{Address: root, Owner: ftOwner(root, ftAcct(x.Bech)), ViewingAccess: vi, EditAccess: ed, TrackingNumber: c10Track}
		want[f.Address+"/"+f.Owner] = f
	case "Post":
		parent := c10Path(p[2])
		acct := acctField(p[3], p[4])
		childHash := hexsha(p[5])
		ed := jmap(map[string]string{ftEditorID(c10Track, x.Bech): "k" + p[1]})
		vi := jmap(map[string]string{ftViewerID(c10Track, x.Bech): "k" + p[1]})
		if p[4] == "q" {
			vi = jmap(map[string]string{ftViewerID(c10Track, w.A(p[3]).Bech): `aa","` + ftViewerID(c10Track, w.A("S").Bech) + `":"bb`})
		}
		contents := "posted-by-" + p[1]
		msg = fttypes.NewMsgPostFile(x.Bech, acct, parent, childHash, contents, vi, ed, c10Track)
		if pf, ok := before[parent+"/"+ftOwner(parent, acct)]; ok {
			if acc, ok := parseAccess(pf.EditAccess); ok {
				if _, has := acc[ftEditorID(pf.TrackingNumber, x.Bech)]; has {
					authorised = true
					full := ftAdd(parent, childHash)
					f := fttypes.Files{Address: full, Contents: contents, Owner: ftOwner(full, acct), ViewingAccess: vi, EditAccess: ed, TrackingNumber: c10Track}
					want[f.Address+"/"+f.Owner] = f
				}
			}
		}
	case "Delete":
		path := c10Path(p[2])
		acct := acctField(p[3], p[4])
		msg = fttypes.NewMsgDeleteFile(x.Bech, path, acct)
		key := path + "/" + ftOwner(path, acct)
		if f, ok := before[key]; ok && ftOwnerPrincipal(w, f) == p[1] {
			authorised = true
			delete(want, key)
		}
	case "ChangeOwner", "ChangeOwnerPlain":
		path := c10Path(p[2])
		acct := acctField(p[3], p[4])
		newAcct := ftAcct(w.A(p[5]).Bech)
		if kind == "ChangeOwnerPlain" {
			newAcct = w.A(p[5]).Bech
		}
		msg = fttypes.NewMsgChangeOwner(x.Bech, path, acct, newAcct)
		key := path + "/" + ftOwner(path, acct)
		if f, ok := before[key]; ok && ftOwnerPrincipal(w, f) == p[1] {
			nk := path + "/" + ftOwner(path, newAcct)
			if _, exists := before[nk]; !exists {
				authorised = true
				delete(want, key)
				f.Owner = ftOwner(path, newAcct)
				want[nk] = f
			}
		}
	case "AddViewers", "AddEditors", "RemoveViewers", "RemoveEditors", "ResetViewers", "ResetEditors":
		path := c10Path(p[2])
		fo := ownerField(path, p[3], p[4])
		key := path + "/" + fo
		f, exists := before[key]
		isOwner := exists && ftOwnerPrincipal(w, f) == p[1]
		viewers := strings.HasSuffix(kind, "Viewers")
		idOf := func(tracking, who string) string {
			if viewers {
				return ftViewerID(tracking, w.A(who).Bech)
			}
			return ftEditorID(tracking, w.A(who).Bech)
		}
		var ids, keys []string
		if len(p) > 5 {
			spec := p[5]
			short := strings.HasSuffix(spec, "/short")
			spec = strings.TrimSuffix(spec, "/short")
			for _, who := range strings.Split(spec, "+") {
				if strings.HasSuffix(who, "~") { // the id of that account followed by two more hex digits: a different, longer id
					who = strings.TrimSuffix(who, "~")
					ids = append(ids, idOf(c10Track, who)+"ff")
				} else if strings.HasSuffix(who, "^") { // the id of that account spelled with capital hex digits: a different id
					who = strings.TrimSuffix(who, "^")
					ids = append(ids, strings.ToUpper(idOf(c10Track, who)))
				} else {
					ids = append(ids, idOf(c10Track, who))
				}
				keys = append(keys, "key-"+who)
			}
			if short {
				keys = keys[:1]
			}
		}
		switch kind {
		case "AddViewers":
			msg = fttypes.NewMsgAddViewers(x.Bech, strings.Join(ids, ","), strings.Join(keys, ","), path, fo)
		case "AddEditors":
			msg = fttypes.NewMsgAddEditors(x.Bech, strings.Join(ids, ","), strings.Join(keys, ","), path, fo)
		case "RemoveViewers":
			msg = fttypes.NewMsgRemoveViewers(x.Bech, strings.Join(ids, ","), path, fo)
		case "RemoveEditors":
			msg = fttypes.NewMsgRemoveEditors(x.Bech, strings.Join(ids, ","), path, fo)
		case "ResetViewers":
			msg = fttypes.NewMsgResetViewers(x.Bech, path, fo)
		case "ResetEditors":
			msg = fttypes.NewMsgResetEditors(x.Bech, path, fo)
		}
		if isOwner {
			cur := f.EditAccess
			if viewers {
				cur = f.ViewingAccess
			}
			if acc, ok := parseAccess(cur); ok {
				authorised = true
				switch {
				case strings.HasPrefix(kind, "Add"):
					for i, id := range ids {
						k := ""
						if i < len(keys) {
							k = keys[i]
						}
						acc[id] = k
					}
				case strings.HasPrefix(kind, "Remove"):
					for _, id := range ids {
						delete(acc, id)
					}
				default: // reset leaves exactly the owner's own access entry
					own := idOf(f.TrackingNumber, p[1])
					acc = map[string]string{own: acc[own]}
				}
				if viewers {
					f.ViewingAccess = jmap(acc)
				} else {
					f.EditAccess = jmap(acc)
				}
				want[key] = f
			}
		}
	}

	res := env.Deliver(msg)
	after := ftSnapshot(w, env.Ctx())
	st := mc.Step{Model: mm, Outcome: "rejected"}
	if res.OK() {
		st.Outcome = "ok"
	}
	if authorised {
		st.Exercised = append(st.Exercised, "authorised-"+kind)
	} else {
		st.Exercised = append(st.Exercised, "unauthorised-"+kind)
	}
	var vs []mc.Viol
	switch {
	case !res.OK():
		if d := ftDiff(w, before, after); d != "" {
			vs = append(vs, viol("failed-message-leaves-tree-unchanged", kind, "%s failed but the tree changed: %s", ev, d))
		}
	case !authorised:
		d := ftDiff(w, before, after)
		vs = append(vs, viol("signer-without-the-right-must-fail", kind, "%s was accepted although %s lacks the right; tree changes: [%s]", ev, p[1], d))
	default:
		if d := ftDiff(w, want, after); d != "" {
			vs = append(vs, viol("alters-only-the-named-entry-and-ids", kind, "%s: post-state differs from the reference: %s", ev, d))
		}
	}
	st.Viols = vs
	return st
}

func init() {
	regScenario(C10{})
	regScenario(C10{Full: true})
	Props["C10"] = Prop{Level: "model_checking", Run: func(r *mc.Run, tier string) {
		r.Rules = append(r.Rules, "BFS from a seeded tree (O's root with editor E and viewer V, E's root, a child under O's root) over provision/post/delete/change-owner/add/remove/reset viewers+editors by owner O, editor E, viewer V, stranger S; the crafted menu adds '/'-containing, concatenated, foreign and junk account/owner fields and mismatched id/key lists; oracle = equality of the whole Files store with a harness-computed reference post-state")
		r.Assumptions = append(r.Assumptions, "SHA-256 collision freedom", "4 principals, paths root, root/c1, root/c2, root/c1/c1")
		r.AddExplore(C10{}, opts(tier, 4, 7, 40, 600, 150, 2000))
		r.AddExplore(C10{Full: true}, opts(tier, 3, 5, 40, 900, 100, 1500))
	}}
}
