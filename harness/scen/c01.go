package scen

import (
	"bytes"
	"encoding/hex"
	"fmt"
	"strings"
	"time"

	sdk "github.com/cosmos/cosmos-sdk/types"

	storagetypes "github.com/jackalLabs/canine-chain/v4/x/storage/types"

	"verif/harness/mc"
	"verif/harness/world"
)

// C01 — no storage reward or prover status without a valid proof of the challenged chunk.
type C01 struct{ Two bool } // Two: the two-file variant (small alphabet, rewards stay with each file's own provers)

var (
	c01F1 = mkFile(seqBytes(12, 1), 4)  // 3 chunks
	c01G  = mkFile(seqBytes(12, 99), 4) // a different file, never posted ("unknown file", and donor of foreign proofs)
	c01F2 = mkFile(seqBytes(8, 50), 4)  // a second posted file (2 chunks, replication 1): rewards must stay with each file's own provers
)

var c01Provers = []string{"P1", "P2", "P3"}

const day = 24 * time.Hour

type c01Model struct {
	Blocks  int
	Gas     uint64
	Start   int64               // start height of the posted file
	Proven  map[string]bool     // account -> has ever had a valid-by-construction proof accepted (or a completed attestation)
	Signed  map[string][]string // prover with an open attestation form -> distinct named providers that signed it
	Proven2 string              // the account that has validly proven the second file ("" = none)
}

func (m c01Model) Key() []byte { return jkey(m) }
func (m c01Model) clone() c01Model {
	n := m
	n.Proven = map[string]bool{}
	for k, v := range m.Proven {
		n.Proven[k] = v
	}
	n.Signed = map[string][]string{}
	for k, v := range m.Signed {
		n.Signed[k] = append([]string{}, v...)
	}
	return n
}

func (C01) ID() string { return "C01" }
func (s C01) Name() string {
	if s.Two {
		return "C01/two-files"
	}
	return "C01/proofs"
}
func (C01) Config() world.Config {
	return world.Config{
		Accounts: []string{"U", "P1", "P2", "P3", "P4"},
		Storage: func(p *storagetypes.Params) {
			p.ChunkSize, p.ProofWindow, p.CheckWindow = 4, 3, 2
			p.AttestFormSize, p.AttestMinToPass = 2, 2
			p.CollateralPrice = 1000
		},
	}
}
func (C01) Stores() []string { return []string{"storage", "bank"} }

func mustOK(r world.TxResult, what string) {
	if !r.OK() {
		panic(fmt.Sprintf("scenario setup: %s failed: %v", what, r.Err))
	}
}

func (s C01) Init(env world.Env) mc.Model {
	w := env.W()
	for i, p := range c01Provers {
		mustOK(env.Deliver(storagetypes.NewMsgInitProvider(w.A(p).Bech, fmt.Sprintf("https://node.provider%d.com", i+1), 1_000_000_000, "kb")), "InitProvider")
	}
	u := w.A("U").Bech
	mustOK(env.Deliver(storagetypes.NewMsgBuyStorage(u, u, 30, 1000_000_000_000, "ujkl")), "BuyStorage")
	start := env.Ctx().BlockHeight()
	mustOK(env.Deliver(storagetypes.NewMsgPostFile(u, c01F1.merkle, int64(len(c01F1.data)), 0, 0, 3, "{}")), "PostFile")
	if s.Two {
		mustOK(env.Deliver(storagetypes.NewMsgPostFile(u, c01F2.merkle, int64(len(c01F2.data)), 0, 1, 1, "{}")), "PostFile f2") // proof type 1: the field is client-supplied and unvalidated
	}
	return c01Model{Start: start, Proven: map[string]bool{}, Signed: map[string][]string{}}
}

var c01Kinds = []string{"valid", "otherAtChallenged", "otherOwnIndex", "broken"}
var c01ExtraKinds = []string{"otherFile", "emptyItem", "truncated"}

func (s C01) Events(env world.Env, mm mc.Model) []string {
	m := mm.(c01Model)
	var evs []string
	if s.Two {
		evs = append(evs, "Proof:P1:f1:valid", "Proof:P2:f1:valid", "Proof:P3:f1:valid", "Proof:P1:f1:otherAtChallenged")
		if m.Proven2 == "" {
			evs = append(evs, "Proof2:P2", "Proof2:P1") // the honest join proof (chunk 0) of the second file
			evs = append(evs, "Proof2Bad:P3")           // a payload that does not verify
		}
		if m.Blocks < 8 {
			evs = append(evs, "NextBlock")
		}
		return evs
	}
	for _, x := range c01Provers {
		for _, k := range c01Kinds {
			evs = append(evs, "Proof:"+x+":f1:"+k)
		}
	}
	for _, k := range c01ExtraKinds {
		evs = append(evs, "Proof:P3:f1:"+k)
	}
	// a fourth account, not a registered provider: only it can meet the file when it is full (replication 3)
	evs = append(evs, "Proof:P4:f1:valid", "Proof:P4:f1:otherAtChallenged", "Proof:P4:f1:broken")
	// the same account signing with the capital spelling of its address
	evs = append(evs, "Proof:P4^:f1:valid", "Proof:P4^:f1:otherAtChallenged", "Proof:P4^:f1:broken")
	evs = append(evs, "Proof:P3:f0:valid", "AttReq:P1", "AttReq:P3")
	for _, x := range c01Provers {
		for _, v := range []string{"P1", "P3"} {
			if x != v {
				evs = append(evs, "Attest:"+x+":"+v)
			}
		}
	}
	if m.Gas == 0 {
		evs = append(evs, "Gas:1", "Gas:2")
	}
	if m.Blocks < 6 {
		evs = append(evs, "NextBlock")
	}
	return evs
}

// c01Payload builds the payload of the given kind relative to the challenge c.
func c01Payload(kind string, c int64) (item, hashList []byte, toProve int64, valid bool) {
	n := int64(len(c01F1.chunks))
	other := (c + 1) % n
	switch kind {
	case "valid":
		item, hashList = c01F1.proofFor(int(c))
		return item, hashList, c, true
	case "otherAtChallenged":
		item, hashList = c01F1.proofFor(int(other))
		return item, hashList, c, false
	case "otherOwnIndex":
		item, hashList = c01F1.proofFor(int(other))
		return item, hashList, other, false
	case "broken":
		item, _ = c01F1.proofFor(int(c))
		return item, []byte("{not json"), c, false
	case "otherFile":
		item, hashList = c01G.proofFor(int(c))
		return item, hashList, c, false
	case "emptyItem":
		_, hashList = c01F1.proofFor(int(c))
		return []byte{}, hashList, c, false
	case "truncated":
		item, hashList = c01F1.proofFor(int(c))
		return item, truncatedProof(hashList), c, false
	}
	panic(kind)
}

// c01Spelling: the address string an account signs with; "X^" is account X spelling its address in capitals.
func c01Spelling(w *world.World, name string) string {
	if strings.HasSuffix(name, "^") {
		return strings.ToUpper(w.A(strings.TrimSuffix(name, "^")).Bech)
	}
	return w.A(name).Bech
}

type c01Snap struct {
	file   storagetypes.UnifiedFile
	found  bool
	proofs map[string]storagetypes.FileProof // prover bech -> record
	dump   []world.KV
}

func c01Snapshot(w *world.World, ctx sdk.Context, start int64) c01Snap {
	s := c01Snap{proofs: map[string]storagetypes.FileProof{}}
	s.file, s.found = getFile(w, ctx, c01F1.merkle, w.A("U").Bech, start)
	for _, p := range w.App.StorageKeeper.GetAllProofs(ctx) {
		if bytes.Equal(p.Merkle, c01F1.merkle) {
			s.proofs[canonAddr(p.Prover)] = p // by account, whatever spelling the record carries
		}
	}
	s.dump = w.DumpStore(ctx, "storage")
	return s
}

func (C01) Apply(env world.Env, mm mc.Model, ev string) mc.Step {
	w := env.W()
	m := mm.(c01Model).clone()
	p := split(ev)
	st := mc.Step{Outcome: "rejected"}
	var vs []mc.Viol
	u := w.A("U").Bech
	switch p[0] {
	case "Gas":
		g := uint64(1)
		if p[1] == "2" {
			g = 2
		}
		env.SetBlockGas(g)
		m.Gas = g
		st.Outcome = "env"
	case "NextBlock":
		before := w.Balances(env.Ctx())
		snapBefore := c01Snapshot(w, env.Ctx(), m.Start)
		if bp := env.NextBlock(day); bp != nil {
			vs = append(vs, viol("no-panic", "block-panic", "%s", bp.Value))
		}
		// an account stays credited as a prover only by proving: at a reward block (every 2nd height) of a file past its
		// first window, a prover without an accepted proof since the start of the previous proof window loses its seat
		if H := env.Ctx().BlockHeight(); H%2 == 0 && snapBefore.found {
			I := snapBefore.file.ProofInterval
			if I > 0 && m.Start+I < H {
				lastWindowStart := H - (H-m.Start)%I - I
				snapAfter := c01Snapshot(w, env.Ctx(), m.Start)
				for _, y := range append(append([]string{}, c01Provers...), "P4") {
					rec, has := snapBefore.proofs[w.A(y).Bech]
					if has && acctListed(snapBefore.file, w.A(y).Addr) && rec.LastProven < lastWindowStart {
						st.Exercised = append(st.Exercised, "stale-prover-at-reward-block")
						if snapAfter.found && acctListed(snapAfter.file, w.A(y).Addr) {
							vs = append(vs, viol("prover-status-only-by-valid-proof", "stale-prover-keeps-its-seat",
								"reward block at height %d (file start %d, proof window %d): %s last proved at height %d, before the previous window [%d,%d), and is still listed", H, m.Start, I, y, rec.LastProven, lastWindowStart, lastWindowStart+I))
						}
					}
				}
			}
		}
		m.Blocks++
		m.Gas = 0
		st.Outcome = "block"
		after := w.Balances(env.Ctx())
		paid := map[string]sdk.Int{}
		for _, x := range append(append([]string{}, c01Provers...), "P4") {
			a := w.A(x).Bech
			if after[a].AmountOf("ujkl").GT(before[a].AmountOf("ujkl")) {
				paid[x] = after[a].AmountOf("ujkl").Sub(before[a].AmountOf("ujkl"))
			}
		}
		// rewards stay with each file's own provers: for two paid accounts x, y the ratio of their payouts is at most
		// (total size of the files x has ever validly proven) / (size of the smallest file y has ever validly proven)
		sizes := func(x string) (max, min int64) {
			if m.Proven[x] {
				max, min = int64(len(c01F1.data)), int64(len(c01F1.data))
			}
			if m.Proven2 == x {
				max += int64(len(c01F2.data))
				min = int64(len(c01F2.data))
			}
			return
		}
		for _, x := range world.SortedKeys(paid) {
			for _, y := range world.SortedKeys(paid) {
				maxX, _ := sizes(x)
				_, minY := sizes(y)
				if x == y || maxX == 0 || minY == 0 {
					continue
				}
				st.Exercised = append(st.Exercised, "two-files-paid")
				// paid[x]/paid[y] <= maxX/minY, up to one base unit of rounding on either payout
				if paid[x].SubRaw(1).MulRaw(minY).GT(paid[y].AddRaw(1).MulRaw(maxX)) {
					vs = append(vs, viol("no-reward-without-valid-proof", "paid-for-a-file-never-proven",
						"reward block at height %d paid %s %s and %s %s: %s has validly proven files of %d bytes in total, %s a file of at least %d bytes, so %s was paid for a file it never proved",
						env.Ctx().BlockHeight(), x, paid[x], y, paid[y], x, maxX, y, minY, x))
				}
			}
		}
		for _, x := range append(append([]string{}, c01Provers...), "P4") {
			a := w.A(x).Bech
			if after[a].AmountOf("ujkl").GT(before[a].AmountOf("ujkl")) {
				st.Exercised = append(st.Exercised, "reward-paid")
				if !m.Proven[x] && m.Proven2 != x {
					vs = append(vs, viol("no-reward-without-valid-proof", "paid-never-proven",
						"%s was paid %s ujkl at the reward block of height %d but never had a valid proof accepted", x,
						after[a].AmountOf("ujkl").Sub(before[a].AmountOf("ujkl")), env.Ctx().BlockHeight()))
				}
			}
		}
	case "Proof2Bad":
		before := w.DumpStore(env.Ctx(), "storage")
		_, hl := c01F2.proofFor(0)
		ok, _ := postProofOK(w, env.Deliver(storagetypes.NewMsgPostProof(w.A(p[1]).Bech, c01F2.merkle, u, m.Start, []byte("not the chunk"), hl, 0)))
		st.Exercised = append(st.Exercised, "invalid-proof")
		if ok || !storeEqual(before, w.DumpStore(env.Ctx(), "storage")) {
			vs = append(vs, viol("invalid-proof-changes-nothing", "second-file", "%s: a payload that does not verify against the second file (posted with proof type 1) was accepted=%v or changed the store", ev, ok))
		}
	case "Proof2":
		item, hl := c01F2.proofFor(0)
		if ok, _ := postProofOK(w, env.Deliver(storagetypes.NewMsgPostProof(w.A(p[1]).Bech, c01F2.merkle, u, m.Start, item, hl, 0))); ok {
			m.Proven2 = p[1]
			st.Outcome = "ok"
		}
	case "Proof":
		who := strings.TrimSuffix(p[1], "^") // the account; "P4^" is account P4 signing with the capital spelling of its address
		x := w.A(who)
		xs := c01Spelling(w, p[1])
		before := c01Snapshot(w, env.Ctx(), m.Start)
		listed := before.found && acctListed(before.file, x.Addr)
		full := before.found && int64(len(before.file.Proofs)) >= before.file.MaxProofs && !listed
		c := int64(0)
		if listed {
			c = before.proofs[x.Bech].ChunkToProve
		}
		merkle := c01F1.merkle
		item, hl, toProve, valid := c01Payload(p[3], c)
		if libVerifies(c01F1.merkle, c, item, hl) != valid && toProve == c {
			panic("harness: payload label disagrees with the Merkle library: " + ev)
		}
		if p[2] == "f0" {
			merkle = c01G.merkle
			item, hl = c01G.proofFor(0)
			toProve, valid = 0, false
		}
		validHere := valid && before.found && !full
		_ = x
		res := env.Deliver(storagetypes.NewMsgPostProof(xs, merkle, u, m.Start, item, hl, toProve))
		ok, emsg := postProofOK(w, res)
		after := c01Snapshot(w, env.Ctx(), m.Start)
		kind := p[3]
		if p[2] == "f0" {
			kind = "unknown-file"
		} else if full {
			kind += "/file-full"
		}
		if validHere {
			st.Exercised = append(st.Exercised, "valid-proof")
			if ok {
				st.Outcome = "ok"
				m.Proven[who] = true
			}
		} else {
			st.Exercised = append(st.Exercised, "invalid-proof")
			if ok {
				vs = append(vs, viol("invalid-proof-changes-nothing", "reported-success", "%s: response says success", ev))
			}
			if !storeEqual(before.dump, after.dump) {
				why := "store-changed"
				if !listed && after.found && acctListed(after.file, x.Addr) {
					why = "sender-registered-before-verification"
				}
				vs = append(vs, viol("invalid-proof-changes-nothing", why, "%s (challenge %d, response %q) changed the storage store: %v", ev, c, emsg, storeDiffKeys(before.dump, after.dump)))
			}
		}
		// (b) prover list gains an account only by its own valid proof; (c) LastProven moves only then
		for _, y := range append(append([]string{}, c01Provers...), "P4") {
			yb := w.A(y).Bech
			was := before.found && acctListed(before.file, w.A(y).Addr)
			is := after.found && acctListed(after.file, w.A(y).Addr)
			if is && !was && !(y == who && validHere && ok) {
				who := "another-account-listed"
				if y == strings.TrimSuffix(p[1], "^") {
					who = "sender-of-rejected-proof-listed"
				}
				vs = append(vs, viol("prover-status-only-by-valid-proof", who, "%s (payload %s): %s became a prover", ev, kind, y))
			}
			pb, hadb := before.proofs[yb]
			pa, hada := after.proofs[yb]
			if hada && (!hadb || pa.LastProven != pb.LastProven) && !(y == who && validHere && ok) {
				who := "another-account-credited"
				if y == strings.TrimSuffix(p[1], "^") {
					who = "sender-of-rejected-proof-credited"
				}
				vs = append(vs, viol("credit-only-by-valid-proof", who, "%s (payload %s): proof record of %s credited (LastProven %d -> %d, had=%v)", ev, kind, y, pb.LastProven, pa.LastProven, hadb))
			}
		}
	case "AttReq":
		res := env.Deliver(storagetypes.NewMsgRequestAttestationForm(w.A(p[1]).Bech, c01F1.merkle, u, m.Start))
		if res.OK() {
			var r storagetypes.MsgRequestAttestationFormResponse
			if err := w.Cdc().Unmarshal(res.RespData, &r); err == nil && r.Success {
				st.Outcome = "ok"
				delete(m.Signed, p[1])
			}
		}
	case "Attest":
		x, v := w.A(p[1]), w.A(p[2])
		before := c01Snapshot(w, env.Ctx(), m.Start)
		form, hadForm := w.App.StorageKeeper.GetAttestationForm(env.Ctx(), v.Bech, c01F1.merkle, u, m.Start)
		named := false
		for _, a := range form.Attestations {
			if a.Provider == x.Bech {
				named = true
			}
		}
		res := env.Deliver(storagetypes.NewMsgAttest(x.Bech, v.Bech, c01F1.merkle, u, m.Start))
		after := c01Snapshot(w, env.Ctx(), m.Start)
		// reference: distinct named signers of this form; the quorum is 2 of the 2 named providers
		if hadForm && named && !has(m.Signed[p[2]], p[1]) {
			m.Signed[p[2]] = append(m.Signed[p[2]], p[1])
		}
		quorum := hadForm && len(m.Signed[p[2]]) >= 2
		for _, y := range c01Provers {
			yb := w.A(y).Bech
			pb, hadb := before.proofs[yb]
			pa, hada := after.proofs[yb]
			if hada && (!hadb || pa.LastProven != pb.LastProven) {
				if !(quorum && yb == v.Bech) {
					vs = append(vs, viol("credit-only-by-valid-proof", "attest-without-quorum", "%s: proof record of %s credited", ev, y))
				} else {
					m.Proven[y] = true
					st.Outcome = "ok"
					st.Exercised = append(st.Exercised, "attestation-completed")
					delete(m.Signed, y)
				}
			}
		}
		_ = res
	}
	st.Model, st.Viols = m, vs
	return st
}

// ---- leaf-name aliasing: a proof of chunk c' passed off as the proof of the challenged chunk c ----
//
// The chain names a leaf by the decimal chunk index immediately followed by the hex of the chunk's bytes. For a challenged
// index c and another index c' whose decimal spelling is that of c followed by an even number of digits dd.., the payload
// (ToProve = c, item = bytes(dd..) || chunk c', hash list of chunk c') spells the same leaf name as the honest proof of c'.
// The item is not the content of chunk c, so by construction it is not a proof of the challenged chunk.

var c01Big = mkFile(seqBytes(130, 5), 1) // 130 one-byte chunks: chunk 1 has the aliases 100..129

// c01Aliases returns the indices c' < n whose decimal spelling is that of c plus an even, positive number of digits.
func c01Aliases(c int64, n int64) []int64 {
	var out []int64
	cs := fmt.Sprint(c)
	for x := int64(0); x < n; x++ {
		xs := fmt.Sprint(x)
		if len(xs) > len(cs) && (len(xs)-len(cs))%2 == 0 && strings.HasPrefix(xs, cs) {
			out = append(out, x)
		}
	}
	return out
}

// ---- every other chunk's proof offered for every challenged index of a 40-chunk file ----

var c01Mid = mkFile(seqBytes(40, 9), 1)

// c01LapseEnum: fixed histories deeper than the search goes - three provers join, one of them asks for an attestation
// form that nobody (or one provider short of the quorum) signs, and then nobody proves for seven blocks: the stale-
// prover clause of the block step must find every one of them struck off, form or no form.
func c01LapseEnum() mc.Enum {
	joins := []string{"Proof:P1:f1:valid", "Proof:P2:f1:valid", "Proof:P3:f1:valid"}
	nb := rep("NextBlock", 7)
	// the requester of a form lapses and is struck off while the providers named on it go on proving; then they sign
	var stale [][]string
	for _, k1 := range []int{2, 3, 4} {
		for _, k2 := range []int{2, 3, 4} {
			stale = append(stale, cat(joins, []string{"AttReq:P1"}, rep("NextBlock", k1), []string{"Proof:P2:f1:valid", "Proof:P3:f1:valid"}, rep("NextBlock", k2),
				[]string{"Proof:P2:f1:valid", "Proof:P3:f1:valid", "NextBlock", "Attest:P2:P1", "Attest:P3:P1"}, rep("NextBlock", 2)))
		}
	}
	return pathEnum("C01", "C01/lapse-paths", C01{}, append(stale, [][]string{
		cat(joins, nb),
		cat(joins, []string{"AttReq:P1"}, nb),
		cat(joins, []string{"AttReq:P3"}, nb),
		cat(joins, []string{"AttReq:P1", "Attest:P2:P1"}, nb),
		cat(joins, []string{"AttReq:P1", "Attest:P3:P1"}, nb),
		cat(joins, []string{"NextBlock", "NextBlock", "AttReq:P1"}, nb),
		cat(joins, []string{"AttReq:P1", "AttReq:P3", "Attest:P2:P1", "Attest:P2:P3"}, nb),
	}...))
}

// c01GasEnum: the gas limit of a transaction is the sender's to choose. A newcomer sends a payload that does not prove
// the challenged chunk under every gas limit from 0 to what the message needs (in steps of 50) and beyond: whatever
// the limit, the storage state is what it was before - in particular the sender is neither listed nor holds a record.
func c01GasEnum() mc.Enum {
	ae := c01AliasEnum()
	e := mc.Enum{Prop: "C01", Name: "C01/gas-limits", Cfg: ae.Cfg, Setup: ae.Setup, ConfirmB: true, ConfB: 3}
	for _, kind := range []string{"broken", "other-chunk", "wrong-index"} {
		kind := kind
		e.Cases = append(e.Cases, mc.Case{Desc: "gas-sweep|" + kind, Run: func(env world.Env) mc.CaseResult {
			w := env.W()
			f := c01Mid
			cr := mc.CaseResult{Class: "no-limit-leaves-a-trace", Nontrivial: true}
			u, p1 := w.A("U").Bech, w.A("P1").Bech
			start := env.Ctx().BlockHeight()
			mustOK(env.Deliver(storagetypes.NewMsgPostFile(u, f.merkle, int64(len(f.data)), 0, 0, 2, "{}")), "PostFile")
			item, hl := f.proofFor(3)
			toProve := int64(0)
			switch kind {
			case "broken":
				hl = []byte(`{"Hashes":[],"Index":0}`)
			case "wrong-index":
				toProve = 3
			}
			msg := func() *storagetypes.MsgPostProof {
				return storagetypes.NewMsgPostProof(p1, f.merkle, u, start, item, hl, toProve)
			}
			full := env.DeliverGas(msg(), world.TxGas)
			if ok, _ := postProofOK(w, full); ok {
				cr.Viols = append(cr.Viols, viol("credit-only-by-valid-proof", "junk-accepted", "payload %s was accepted with ample gas", kind))
				return cr
			}
			needed := uint64(full.GasUsed)
			if needed == 0 || needed > 2_000_000 {
				needed = 200_000
			}
			before := w.DumpStore(env.Ctx(), "storage")
			var bad []uint64
			for g := uint64(0); g <= needed+3000; g += 50 {
				res := env.DeliverGas(msg(), g)
				cr.Count++
				cr.NontrivialCount++
				file, found := getFile(w, env.Ctx(), f.merkle, u, start)
				_, hasRec := w.App.StorageKeeper.GetProof(env.Ctx(), p1, f.merkle, u, start)
				if !storeEqual(before, w.DumpStore(env.Ctx(), "storage")) || hasRec || (found && proverListed(file, p1)) {
					bad = append(bad, g)
					if len(bad) == 1 {
						cr.Viols = append(cr.Viols, viol("credit-only-by-valid-proof", "sender-of-rejected-proof-credited under-a-chosen-gas-limit",
							"payload %s sent with gas limit %d (the message needs %d): accepted=%v, sender listed=%v, proof record=%v, storage store changed=%v",
							kind, g, needed, res.OK(), found && proverListed(file, p1), hasRec, !storeEqual(before, w.DumpStore(env.Ctx(), "storage"))))
					}
					return cr // the state is no longer the one every limit is tried on
				}
			}
			return cr
		}})
	}
	return e
}

func c01OtherChunkEnum() mc.Enum {
	ae := c01AliasEnum()
	e := mc.Enum{Prop: "C01", Name: "C01/other-chunk", Cfg: ae.Cfg, Setup: ae.Setup, ConfirmB: true, ConfB: 1}
	for g0 := uint64(0); g0 < 2; g0++ {
		g0 := g0
		e.Cases = append(e.Cases, mc.Case{Desc: fmt.Sprintf("other-chunk|gas0=%d", g0), Run: func(env world.Env) mc.CaseResult {
			w := env.W()
			f := c01Mid
			cr := mc.CaseResult{Class: "all-challenges-covered", Nontrivial: true}
			u, p1 := w.A("U").Bech, w.A("P1").Bech
			start := env.Ctx().BlockHeight()
			mustOK(env.Deliver(storagetypes.NewMsgPostFile(u, f.merkle, int64(len(f.data)), 0, 0, 1, "{}")), "PostFile")
			n := len(f.chunks)
			tested := map[int64]bool{}
			challenge := int64(0)
			for round := 0; round < 1500 && len(tested) < n; round++ {
				if round > 0 && !tested[challenge] {
					tested[challenge] = true
					before := w.DumpStore(env.Ctx(), "storage")
					for x := 0; x < n; x++ {
						if int64(x) == challenge {
							continue
						}
						item, hl := f.proofFor(x)
						ok, _ := postProofOK(w, env.Deliver(storagetypes.NewMsgPostProof(p1, f.merkle, u, start, item, hl, challenge)))
						if ok || !storeEqual(before, w.DumpStore(env.Ctx(), "storage")) {
							cr.Viols = append(cr.Viols, viol("credit-only-by-valid-proof", "other-chunk-accepted", "file of %d one-byte chunks, prover challenged with chunk %d: the content and hash list of chunk %d, sent with ToProve=%d, were accepted (success=%v)", n, challenge, x, challenge, ok))
							return cr
						}
					}
				}
				env.SetBlockGas(g0*100000 + uint64(round))
				item, hl := f.proofFor(int(challenge))
				if ok, _ := postProofOK(w, env.Deliver(storagetypes.NewMsgPostProof(p1, f.merkle, u, start, item, hl, challenge))); !ok {
					cr.Class = "honest-proof-rejected" // not this property's concern (C02 checks that honest proofs are accepted)
					return cr
				}
				pr, _ := w.App.StorageKeeper.GetProof(env.Ctx(), p1, f.merkle, u, start)
				challenge = pr.ChunkToProve
				if round%16 == 15 {
					if bp := env.NextBlock(time.Second); bp != nil {
						panic(bp.Value)
					}
				}
			}
			if len(tested) < n-1 {
				cr.Class = fmt.Sprintf("challenges-covered=%d/%d", len(tested), n)
			}
			return cr
		}})
	}
	return e
}

func c01AliasEnum() mc.Enum {
	cfg := C01{}.Config()
	st := cfg.Storage
	cfg.Storage = func(p *storagetypes.Params) {
		st(p)
		p.ChunkSize, p.ProofWindow, p.CheckWindow = 1, 100000, 100000
	}
	e := mc.Enum{Prop: "C01", Name: "C01/index-aliasing", Cfg: cfg, ConfirmB: true, ConfB: 2}
	e.Setup = func(env world.Env) {
		w := env.W()
		mustOK(env.Deliver(storagetypes.NewMsgInitProvider(w.A("P1").Bech, "https://node.provider1.com", 1_000_000_000, "kb")), "InitProvider")
		u := w.A("U").Bech
		mustOK(env.Deliver(storagetypes.NewMsgBuyStorage(u, u, 30, 1000_000_000_000, "ujkl")), "BuyStorage")
	}
	for g0 := uint64(0); g0 < 8; g0++ {
		g0 := g0
		c := mc.Case{Desc: fmt.Sprintf("alias|gas0=%d", g0)}
		c.Run = func(env world.Env) mc.CaseResult {
			w := env.W()
			f := c01Big
			cr := mc.CaseResult{Class: "no-aliasable-challenge-within-the-horizon"}
			u, p1 := w.A("U").Bech, w.A("P1").Bech
			start := env.Ctx().BlockHeight()
			mustOK(env.Deliver(storagetypes.NewMsgPostFile(u, f.merkle, int64(len(f.data)), 0, 0, 1, "{}")), "PostFile")
			n := int64(len(f.chunks))
			challenge := int64(0)
			for round := 0; round < 3000; round++ {
				if al := c01Aliases(challenge, n); round > 0 && len(al) > 0 {
					cr.Class, cr.Nontrivial = "aliasable-challenge-reached", true
					before := w.DumpStore(env.Ctx(), "storage")
					for _, x := range al {
						extra, err := hex.DecodeString(fmt.Sprint(x)[len(fmt.Sprint(challenge)):])
						if err != nil {
							panic(err)
						}
						chunk, hl := f.proofFor(int(x))
						item := append(append([]byte{}, extra...), chunk...)
						if bytes.Equal(item, f.chunks[challenge]) {
							continue // would be the honest item
						}
						ok, _ := postProofOK(w, env.Deliver(storagetypes.NewMsgPostProof(p1, f.merkle, u, start, item, hl, challenge)))
						after := w.DumpStore(env.Ctx(), "storage")
						if ok || !storeEqual(before, after) {
							cr.Viols = append(cr.Viols, viol("credit-only-by-valid-proof", "leaf-name-alias", "file of %d one-byte chunks, prover challenged with chunk %d: payload (ToProve=%d, item=%x = digits %q as bytes followed by the content of chunk %d, hash list of chunk %d) was accepted (success=%v, store changed=%v) although the item is not the content of chunk %d (%x)", n, challenge, challenge, item, fmt.Sprint(x)[len(fmt.Sprint(challenge)):], x, x, ok, !storeEqual(before, after), challenge, f.chunks[challenge]))
							return cr
						}
					}
					return cr
				}
				env.SetBlockGas(g0*4096 + uint64(round))
				item, hl := f.proofFor(int(challenge))
				if ok, _ := postProofOK(w, env.Deliver(storagetypes.NewMsgPostProof(p1, f.merkle, u, start, item, hl, challenge))); !ok {
					cr.Class = "honest-proof-rejected" // not this property's concern (C02 checks that honest proofs are accepted)
					return cr
				}
				pr, found := w.App.StorageKeeper.GetProof(env.Ctx(), p1, f.merkle, u, start)
				if !found {
					panic("harness: no proof record after an accepted proof")
				}
				challenge = pr.ChunkToProve
				if round%16 == 15 {
					if bp := env.NextBlock(time.Second); bp != nil {
						panic(bp.Value)
					}
				}
			}
			return cr
		}
		e.Cases = append(e.Cases, c)
	}
	return e
}

func init() {
	CaseReplayers["C01/index-aliasing"] = func(r *mc.Run, c string) { r.ReplayCase(c01AliasEnum(), c) }
	CaseReplayers["C01/other-chunk"] = func(r *mc.Run, c string) { r.ReplayCase(c01OtherChunkEnum(), c) }
	CaseReplayers["C01/gas-limits"] = func(r *mc.Run, c string) { r.ReplayCase(c01GasEnum(), c) }
	CaseReplayers["C01/lapse-paths"] = func(r *mc.Run, c string) { r.ReplayCase(c01LapseEnum(), c) }
	regScenario(C01{})
	regScenario(C01{Two: true})
	Props["C01"] = Prop{Level: "model_checking", Run: func(r *mc.Run, tier string) {
		r.Rules = append(r.Rules, "BFS from a posted 3-chunk file (replication 3; a 4th account meets it when full) over PostProof by 3 accounts x payload {valid for the challenged chunk, another chunk's proof sent with the challenged index, with its own index, broken hash list; for one account also foreign-file proof, empty item, truncated hash list}, proof for an unknown file, attestation request/sign, block-gas choice (varies the next challenge), NextBlock (1 day; reward blocks every 2nd block); payload validity is known by construction and cross-checked with the Merkle library")
		r.Assumptions = append(r.Assumptions, "ChunkSize 4, ProofWindow 3, CheckWindow 2, attestation form size 1/min 1", "SHA-256/SHA3 collision freedom")
		r.AddExplore(C01{}, opts(tier, 7, 12, 60, 1200, 150, 2000))
		r.Rules = append(r.Rules, "two-file variant: a second posted file (replication 1) whose slot P1 or P2 can take; valid proofs of the first file by 3 accounts, one invalid payload, NextBlock; at every reward block the payouts of two accounts may not exceed the ratio of the sizes of the files each has ever validly proven")
		r.AddExplore(C01{Two: true}, opts(tier, 8, 12, 40, 600, 60, 500))
		r.Rules = append(r.Rules, "leaf-name aliasing: a 130-chunk file (chunk size 1); from 8 starting seeds the honest prover proves until the chain challenges a chunk whose index has an alias (index spelled with two more digits), then every alias payload is submitted for the challenged index and must be rejected without any change")
		r.AddEnum(c01AliasEnum(), workers(), time.Now().Add(10*time.Minute))
		r.Rules = append(r.Rules, "other-chunk enumeration: a 40-chunk file; for every index the chain challenges the prover with (the honest prover keeps proving until all 40 have come up), the content and hash list of each of the 39 other chunks is submitted for that index and must be rejected without any change")
		r.AddEnum(c01OtherChunkEnum(), workers(), time.Now().Add(10*time.Minute))
		r.Rules = append(r.Rules, "lapse paths: 16 fixed histories of 10-18 steps (among them: the requester of a form is struck off while the named providers go on proving and then sign) (three provers join; attestation forms requested and left unsigned or one signature short; then seven blocks in which nobody proves), every step judged by the same oracle as the search")
		r.AddEnum(c01LapseEnum(), workers(), time.Time{})
		r.Rules = append(r.Rules, "gas limits: a newcomer sends each of three payloads that do not prove the challenged chunk under every gas limit from 0 to what the message needs plus 3000, in steps of 50 (seam A: a finite gas meter around the handler; seam B: the limit of the signed transaction): the storage store stays byte-identical")
		r.AddEnum(c01GasEnum(), workers(), time.Time{})
	}}
}
