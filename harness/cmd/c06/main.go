// Command c06 (built only with the seamgen overlay, as bin/mc-seams) decides C06: for every history it executes
// the real ABCI pipeline on a fresh node once per choice vector of the instrumented nondeterminism seams and
// demands identical observation logs (AppHash per block, tx code/gas/events/data, block events).
package main

import (
	"encoding/json"
	"fmt"
	"os"
	"os/exec"
	"runtime"
	"runtime/debug"
	"strconv"
	"strings"
	"time"

	"github.com/jackalLabs/canine-chain/v4/verifrt"

	"verif/harness/mc"
	"verif/harness/scen"
	"verif/harness/world"
)

type vec struct {
	Clock, Rng int
	Maps       []int
	Zone       int `json:",omitempty"`
	Restart    int `json:",omitempty"` // the process restarts after that many committed blocks (0 = never)
	Sim        int `json:",omitempty"` // 1: every transaction is first run through the gas-estimation entry point
	GC         int `json:",omitempty"` // 1: the garbage collector runs before every transaction
	Procs      int `json:",omitempty"` // > 0: the node has that many CPUs (GOMAXPROCS)
}

func (v vec) String() string {
	return fmt.Sprintf("clock=%d rng=%d zone=%d restart=%d simulate=%d gc=%d cpus=%d maps=%v", v.Clock, v.Rng, v.Zone, v.Restart, v.Sim, v.GC, v.Procs, v.Maps)
}

func execute(h scen.C06History, v vec) (obs []string, pts []verifrt.Point, err error) {
	defer func() {
		if r := recover(); r != nil {
			err = fmt.Errorf("panic: %v\n%s", r, debug.Stack())
		}
	}()
	verifrt.Reset(v.Clock, v.Rng, v.Maps)
	verifrt.SetZone(v.Zone)
	if v.Procs > 0 {
		old := runtime.GOMAXPROCS(v.Procs)
		defer runtime.GOMAXPROCS(old)
	}
	w := world.New(h.Sc.Config())
	e := w.NewEnvB()
	e.RestartAfter, e.Simulate, e.GCBeforeTx = v.Restart, v.Sim == 1, v.GC == 1
	m := h.Sc.Init(e)
	for _, ev := range h.Path {
		st := h.Sc.Apply(e, m, ev)
		m = st.Model
	}
	e.Finish()
	return e.Obs, append([]verifrt.Point{}, verifrt.Points()...), nil
}

type shardOut struct {
	Histories, Executions, MapPoints, MaxPoints int
	Sites                                       map[string]int
	Viols                                       []mc.Record
	Harness                                     []string
	Samples                                     [][]string
	DistinctLogs                                int
}

func firstDiff(a, b []string) (int, string, string) {
	for i := 0; i < len(a) || i < len(b); i++ {
		x, y := "", ""
		if i < len(a) {
			x = a[i]
		}
		if i < len(b) {
			y = b[i]
		}
		if x != y {
			return i, x, y
		}
	}
	return -1, "", ""
}

func kindOfLine(l string) string {
	if i := strings.IndexByte(l, ' '); i > 0 {
		return l[:i]
	}
	return l
}

func checkHistory(h scen.C06History, bound int, out *shardOut) {
	base, pts, err := execute(h, vec{})
	if err != nil {
		out.Harness = append(out.Harness, fmt.Sprintf("%s %v: %v", h.Sc.Name(), h.Path, err))
		return
	}
	again, _, _ := execute(h, vec{})
	out.Executions += 2
	if i, x, y := firstDiff(base, again); i >= 0 {
		// two executions under the same choices differ: if that happens again on two further executions, the results
		// depend on something no choice of the harness stands for (a memory address, say) - which is what the property
		// rules out; a difference that does not come back is reported as a fault of the harness
		third, _, _ := execute(h, vec{})
		fourth, _, _ := execute(h, vec{})
		out.Executions += 2
		j, _, _ := firstDiff(third, fourth)
		k, _, _ := firstDiff(base, third)
		if j >= 0 && k >= 0 {
			what := kindOfLine(x)
			if what == "" {
				what = kindOfLine(y)
			}
			out.Viols = append(out.Viols, mc.Record{Property: "C06", Scenario: h.Sc.Name(), Kind: "c06", Clause: "identical-results-on-independent-executions",
				Signature: "identical-results-on-independent-executions:" + what + " depends-on=something-outside-every-controlled-choice",
				Detail:    fmt.Sprintf("four executions under the default choices give pairwise different results; first difference at observation %d: %q vs %q", i, trunc(x), trunc(y)), Path: h.Path, Case: vec{}.String()})
			return
		}
		out.Harness = append(out.Harness, fmt.Sprintf("default vector not reproducible for %s %v: line %d %q vs %q", h.Sc.Name(), h.Path, i, x, y))
		return
	}
	out.Histories++
	out.MapPoints += len(pts)
	if len(pts) > out.MaxPoints {
		out.MaxPoints = len(pts)
	}
	for _, p := range pts {
		s := p.Site
		if i := strings.Index(s, "/repo/"); i >= 0 {
			s = s[i+6:]
		}
		out.Sites[s]++
	}
	var vecs []vec
	vecs = append(vecs, vec{Clock: 1}, vec{Rng: 1}, vec{Zone: 1}, vec{Sim: 1}, vec{GC: 1}, vec{Procs: 1}, vec{Procs: 2})
	commits := 0
	for _, l := range base {
		if strings.HasPrefix(l, "apphash ") {
			commits++
		}
	}
	for k := 1; k < commits; k++ { // a restart after the last commit changes nothing that is observed
		vecs = append(vecs, vec{Restart: k})
	}
	single := func(i, c int) []int {
		m := make([]int, len(pts))
		m[i] = c
		return m
	}
	for i, p := range pts {
		for c := 1; c < p.Arity; c++ {
			vecs = append(vecs, vec{Maps: single(i, c)})
		}
	}
	if bound >= 2 {
		vecs = append(vecs, vec{Clock: 1, Rng: 1}, vec{Clock: 1, Zone: 1}, vec{Rng: 1, Zone: 1}, vec{Clock: 1, Sim: 1}, vec{Rng: 1, Sim: 1})
		for k := 1; k < commits; k++ {
			vecs = append(vecs, vec{Restart: k, Sim: 1}, vec{Restart: k, Rng: 1})
		}
		for i, p := range pts {
			for c := 1; c < p.Arity; c++ {
				vecs = append(vecs, vec{Clock: 1, Maps: single(i, c)}, vec{Rng: 1, Maps: single(i, c)}, vec{Zone: 1, Maps: single(i, c)})
				for j := i + 1; j < len(pts); j++ {
					for d := 1; d < pts[j].Arity; d++ {
						m := single(i, c)
						m[j] = d
						vecs = append(vecs, vec{Maps: m})
					}
				}
			}
		}
	}
	for _, v := range vecs {
		obs, _, err := execute(h, v)
		out.Executions++
		if err != nil && strings.Contains(err.Error(), "scenario setup: ") {
			// a transaction of the scenario's set-up that is accepted under the default choices is refused under this
			// vector: the result of a transaction depends on the choice
			msg := err.Error()
			if j := strings.Index(msg, "\n"); j > 0 {
				msg = msg[:j]
			}
			out.Viols = append(out.Viols, mc.Record{Property: "C06", Scenario: h.Sc.Name(), Kind: "c06", Clause: "identical-results-on-independent-executions",
				Signature: "identical-results-on-independent-executions:tx depends-on=" + depOf(v),
				Detail:    fmt.Sprintf("choice vector %s: a set-up transaction that is accepted under the default choices fails: %s", v, trunc(msg)), Path: h.Path, Case: v.String()})
			return
		}
		if err != nil {
			out.Harness = append(out.Harness, fmt.Sprintf("%s %v under %s: %v", h.Sc.Name(), h.Path, v, err))
			continue
		}
		if i, x, y := firstDiff(base, obs); i >= 0 {
			what := kindOfLine(x)
			if what == "" {
				what = kindOfLine(y)
			}
			dep := depOf(v)
			out.Viols = append(out.Viols, mc.Record{Property: "C06", Scenario: h.Sc.Name(), Kind: "c06", Clause: "identical-results-on-independent-executions",
				Signature: "identical-results-on-independent-executions:" + what + " depends-on=" + dep,
				Detail:    fmt.Sprintf("choice vector %s changes observation %d: %q vs %q", v, i, trunc(x), trunc(y)), Path: h.Path, Case: v.String()})
			return
		}
	}
	if len(out.Samples) < 3 {
		out.Samples = append(out.Samples, append([]string{h.Sc.Name()}, h.Path...))
	}
}

// depOf names what a single-deviation choice vector stands for.
func depOf(v vec) string {
	dep := "map-iteration-order"
	if v.Clock == 1 && len(v.Maps) == 0 && v.Rng == 0 && v.Zone == 0 && v.Restart == 0 && v.Sim == 0 {
		dep = "wall-clock"
	} else if v.Rng == 1 && len(v.Maps) == 0 && v.Clock == 0 && v.Zone == 0 && v.Restart == 0 && v.Sim == 0 {
		dep = "process-local-randomness"
	} else if v.Zone == 1 && len(v.Maps) == 0 && v.Clock == 0 && v.Rng == 0 && v.Restart == 0 && v.Sim == 0 {
		dep = "host-time-zone"
	} else if v.Restart > 0 && len(v.Maps) == 0 && v.Clock == 0 && v.Rng == 0 && v.Zone == 0 && v.Sim == 0 {
		dep = "process-memory-lost-by-a-restart"
	} else if v.Sim == 1 && len(v.Maps) == 0 && v.Clock == 0 && v.Rng == 0 && v.Zone == 0 && v.Restart == 0 && v.GC == 0 {
		dep = "process-memory-left-by-a-simulated-transaction"
	} else if v.GC == 1 && len(v.Maps) == 0 && v.Clock == 0 && v.Rng == 0 && v.Zone == 0 && v.Restart == 0 && v.Sim == 0 {
		dep = "garbage-collection-timing"
	} else if v.Procs > 0 && len(v.Maps) == 0 && v.Clock == 0 && v.Rng == 0 && v.Zone == 0 && v.Restart == 0 && v.Sim == 0 && v.GC == 0 {
		dep = "number-of-cpus"
	}
	return dep
}

func trunc(s string) string {
	if len(s) > 300 {
		return s[:300] + "..."
	}
	return s
}

func main() {
	out := world.Muzzle()
	if len(os.Args) < 3 {
		fmt.Fprintln(out, "usage: mc-seams run quick|thorough | shard i n tier file | replay file")
		os.Exit(2)
	}
	switch os.Args[1] {
	case "shard":
		i, _ := strconv.Atoi(os.Args[2])
		n, _ := strconv.Atoi(os.Args[3])
		tier := os.Args[4]
		bound := 1
		if tier == "thorough" {
			bound = 2
		}
		hs := scen.C06Histories(tier)
		skipped := scen.C06Skipped
		so := &shardOut{Sites: map[string]int{}}
		deadline := time.Now().Add(110 * time.Second)
		if tier == "thorough" {
			deadline = time.Now().Add(25 * time.Minute)
		}
		done := 0
		for idx, h := range hs {
			if idx%n != i {
				continue
			}
			if time.Now().After(deadline) {
				so.Harness = append(so.Harness, "DEADLINE")
				break
			}
			checkHistory(h, bound, so)
			done++
		}
		for _, sk := range skipped {
			so.Harness = append(so.Harness, "scenario contributed no histories (its set-up failed on this tree): "+sk)
		}
		bz, _ := json.Marshal(so)
		_ = os.WriteFile(os.Args[5], bz, 0o644)
	case "replay":
		bz, err := os.ReadFile(os.Args[2])
		if err != nil {
			fmt.Fprintln(out, err)
			os.Exit(2)
		}
		var rec mc.Record
		_ = json.Unmarshal(bz, &rec)
		sc, ok := scen.Scenarios[rec.Scenario]
		if !ok {
			fmt.Fprintln(out, "unknown scenario", rec.Scenario)
			os.Exit(2)
		}
		so := &shardOut{Sites: map[string]int{}}
		checkHistory(scen.C06History{Sc: sc, Path: rec.Path}, 2, so)
		if len(so.Viols) > 0 {
			fmt.Fprintf(out, "  %s\nVIOLATION property=C06 replay=%s\n", so.Viols[0].Detail, os.Args[2])
			os.Exit(1)
		}
		fmt.Fprintln(out, "history is deterministic under all choice vectors with <= 2 deviations")
	case "run":
		tier := os.Args[2]
		r := mc.NewRun("C06", tier, "model_checking")
		n := runtime.NumCPU()
		if n > 16 {
			n = 16
		}
		self, _ := os.Executable()
		files := make([]string, n)
		cmds := make([]*exec.Cmd, n)
		for i := 0; i < n; i++ {
			files[i] = fmt.Sprintf("%s/bin/c06-shard-%d-%d.json", mc.VerifDir, os.Getpid(), i)
			cmds[i] = exec.Command(self, "shard", strconv.Itoa(i), strconv.Itoa(n), tier, files[i])
			cmds[i].Stderr = os.Stderr
			if err := cmds[i].Start(); err != nil {
				r.Harness = append(r.Harness, err.Error())
			}
		}
		total := shardOut{Sites: map[string]int{}}
		for i := 0; i < n; i++ {
			if err := cmds[i].Wait(); err != nil {
				r.Harness = append(r.Harness, fmt.Sprintf("shard %d: %v", i, err))
				continue
			}
			bz, err := os.ReadFile(files[i])
			_ = os.Remove(files[i])
			if err != nil {
				r.Harness = append(r.Harness, err.Error())
				continue
			}
			var so shardOut
			_ = json.Unmarshal(bz, &so)
			total.Histories += so.Histories
			total.Executions += so.Executions
			total.MapPoints += so.MapPoints
			if so.MaxPoints > total.MaxPoints {
				total.MaxPoints = so.MaxPoints
			}
			for k, v := range so.Sites {
				total.Sites[k] += v
			}
			total.Viols = append(total.Viols, so.Viols...)
			for _, h := range so.Harness {
				if h == "DEADLINE" {
					r.Exhaustive = false
				} else {
					r.Harness = append(r.Harness, h)
				}
			}
			total.Samples = append(total.Samples, so.Samples...)
		}
		r.States, r.Transitions, r.Traces = total.Histories, total.Executions, total.Executions
		r.Evaluations, r.Nontrivial = total.Executions, total.Histories
		bound := 1
		if tier == "thorough" {
			bound = 2
		}
		r.Rules = append(r.Rules, fmt.Sprintf("for every history (all search-tree paths of the C06/mix scenario to suffix depth %d extended to a reward block, 6 (thorough: 20) histories of 9 further blocks in which nobody proves again (provers are struck off, contracts burned, files dropped), plus search-tree paths of the C17, C01, C09, C10, C18, C14, C07 scenarios): one execution of the real ABCI pipeline on a fresh node per choice vector with <= %d deviations from the default (every permutation of every map iteration reached, two wall-clock bases, two initial RNG seeds, two host time zones: UTC and one with daylight saving, a restart of the process after each committed block, every transaction first simulated on the node, the garbage collector run before every transaction, 1 or 2 CPUs instead of all); states = histories, transitions = executions; a history is non-trivial if its default execution is reproducible", map[string]int{"quick": 2, "thorough": 3}[tier], bound))
		r.Assumptions = append(r.Assumptions, "nondeterminism sources are those the seamgen inventory finds in x/, app/, wasmbinding/, types/ (map ranges, time.Now, tendermint rand.NewRand); go statements/select: none outside generated gateway code", "SDK, Tendermint and wasmvm internals are taken as deterministic")
		for i, s := range total.Samples {
			if i < 4 {
				r.Samples = append(r.Samples, s)
			}
		}
		r.Sub = append(r.Sub, map[string]interface{}{"histories": total.Histories, "executions": total.Executions, "map_range_choice_points_reached": total.MapPoints, "max_points_in_one_history": total.MaxPoints, "points_by_site": total.Sites, "deviation_bound": bound})
		r.Printf("[C06] histories=%d executions=%d map-range choice points=%d (max %d per history) sites=%v bound=%d\n", total.Histories, total.Executions, total.MapPoints, total.MaxPoints, total.Sites, bound)
		seen := map[string]bool{}
		for _, v := range total.Viols {
			if !seen[v.Signature] {
				seen[v.Signature] = true
				r.Report(v)
			}
		}
		os.Exit(r.Finish())
	}
}
