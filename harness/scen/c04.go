package scen

import (
	"fmt"
	"strings"
	"time"

	sdk "github.com/cosmos/cosmos-sdk/types"
	authtypes "github.com/cosmos/cosmos-sdk/x/auth/types"

	jkltypes "github.com/jackalLabs/canine-chain/v4/types"
	oracletypes "github.com/jackalLabs/canine-chain/v4/x/oracle/types"
	rnstypes "github.com/jackalLabs/canine-chain/v4/x/rns/types"
	storagetypes "github.com/jackalLabs/canine-chain/v4/x/storage/types"

	"verif/harness/mc"
	"verif/harness/world"
)

// C04 — storage payments are charged exactly and split without misdirecting tokens.

func c04Config() world.Config {
	return world.Config{
		Accounts: []string{"A", "B", "R", "feeder", "funder", "poor"},
		Balances: map[string]sdk.Coins{"poor": sdk.NewCoins()},
		Storage:  func(p *storagetypes.Params) { p.CheckWindow = 1000 },
	}
}

const gbBytes = int64(1_000_000_000)

type c04Group struct {
	plan string // none | smaller | larger | usage | expired
	feed string // "" (absent) or price string
	pol  int64
	ref  int64
}

func (g c04Group) String() string {
	return fmt.Sprintf("plan=%s|feed=%q|pol=%d|ref=%d", g.plan, g.feed, g.pol, g.ref)
}

// c04Setup prepares names, price feed, parameters and the existing-plan state of both possible recipients.
func c04Setup(env world.Env, g c04Group) {
	w := env.W()
	a, b, r := w.A("A").Bech, w.A("B").Bech, w.A("R").Bech
	mustOK(env.Deliver(rnstypes.NewMsgRegisterName(r, "refer.jkl", 2, "{}", false)), "register refer.jkl")
	mustOK(env.Deliver(rnstypes.NewMsgRegisterName(a, "payer.jkl", 2, "{}", false)), "register payer.jkl")
	// a registered provider, so that the collateral escrow holds tokens no purchase may touch
	mustOK(env.Deliver(storagetypes.NewMsgInitProvider(w.A("feeder").Bech, "https://node.feeder.com", 1_000_000, "kb")), "InitProvider")
	k := w.App.StorageKeeper
	switch g.plan {
	case "smaller":
		for _, x := range []string{a, b} {
			mustOK(env.Deliver(storagetypes.NewMsgBuyStorage(x, x, 30, 1*gbBytes, "ujkl")), "plan")
		}
	case "larger":
		for _, x := range []string{a, b} {
			mustOK(env.Deliver(storagetypes.NewMsgBuyStorage(x, x, 30, 50_000*gbBytes, "ujkl")), "plan")
		}
	case "usage":
		f := mkFile(seqBytes(9, 1), 1024)
		for _, x := range []string{a, b} {
			mustOK(env.Deliver(storagetypes.NewMsgBuyStorage(x, x, 30, 5_000*gbBytes, "ujkl")), "plan")
			mustOK(env.Deliver(storagetypes.NewMsgPostFile(x, f.merkle, 4_000*gbBytes, 0, 0, 1, "{}")), "usage")
		}
	case "expired":
		for _, x := range []string{a, b} {
			mustOK(env.Deliver(storagetypes.NewMsgBuyStorage(x, x, 30, 1*gbBytes, "ujkl")), "plan")
		}
		if bp := env.NextBlock(31 * day); bp != nil {
			panic(bp.Value)
		}
	}
	if g.plan != "none" && g.plan != "expired" { // let some of the plan elapse so that upgrades are prorated
		if bp := env.NextBlock(10 * day); bp != nil {
			panic(bp.Value)
		}
	}
	// the existing plans above were bought at the default price; the feed takes its value only now (a zero, negative or
	// unparsable price makes every later purchase fail, which is one of the outcomes under test, not a set-up failure)
	if g.feed != "" {
		mustOK(env.Deliver(oracletypes.NewMsgCreateFeed(w.A("feeder").Bech, "jklprice")), "CreateFeed")
		mustOK(env.Deliver(oracletypes.NewMsgUpdateFeed(w.A("feeder").Bech, "jklprice", `{"price":"`+g.feed+`","24h_change":"0"}`)), "UpdateFeed")
	}
	env.Mutate(func(ctx sdk.Context) {
		ps := k.GetParams(ctx)
		ps.PolRatio, ps.ReferralCommission = g.pol, g.ref
		k.SetParams(ctx, ps)
	})
}

type c04Buy struct {
	bytes    int64
	days     int64
	referral string // none|self|other|name-other|name-self|unregistered|garbage
	forOther bool
	short    bool // payer holds one base unit less than the price
	dup      bool // an identical purchase by another payer (for itself) was made just before, in the same block
	forCaps  bool // the recipient's address is spelled in capitals (the same account)
}

func (b c04Buy) String() string {
	s := fmt.Sprintf("bytes=%d|days=%d|ref=%s|forOther=%v|short=%v|dup=%v", b.bytes, b.days, b.referral, b.forOther, b.short, b.dup)
	if b.forCaps {
		s += "|forCaps=true"
	}
	return s
}

func within1(a, b sdk.Int) bool { return a.Sub(b).Abs().LTE(sdk.OneInt()) }

func c04RunBuy(env world.Env, g c04Group, b c04Buy) (vs []mc.Viol, class string) {
	w := env.W()
	k := w.App.StorageKeeper
	ctx := env.Ctx()
	payer := w.A("A")
	forAcc := payer
	if b.forOther {
		forAcc = w.A("B")
	}
	refStr, referred := "", false
	refAddr := w.A("R").Bech
	if b.short && b.referral == "name-self" { // the payer of a 'short' purchase is a third account, so payer.jkl names someone else
		referred, refAddr = true, w.A("A").Bech
	}
	switch b.referral {
	case "self", "self-caps": // self-caps: the payer signs with the capital spelling of its address and names itself (lower case)
		refStr = payer.Bech
	case "other":
		refStr, referred = w.A("R").Bech, true
	case "name-other":
		refStr, referred = "refer.jkl", true
	case "fresh": // a valid address the chain has never seen: no account record, no balance
		fa := sdk.AccAddress([]byte("referrer-never-seen-")).String()
		refStr, referred, refAddr = fa, true, fa
	case "name-self":
		refStr = "payer.jkl"
	case "unregistered":
		refStr = "nobody.jkl"
	case "garbage":
		refStr = "xyz"
	}
	// the price the chain computes, evaluated on the pre-state
	var base sdk.Int
	havePrice := false
	func() {
		defer func() { _ = recover() }()
		gbs := b.bytes / gbBytes
		hours := b.days * 24
		base = k.GetStorageCost(ctx, gbs, hours)
		if pi, ok := k.GetStoragePaymentInfo(ctx, forAcc.Bech); ok && pi.End.After(ctx.BlockTime()) {
			c, err := k.UpgradeStorage(ctx, b.bytes, pi, time.Duration(b.days)*24*time.Hour, base, "ujkl")
			if err != nil {
				return
			}
			base = c.Amount
		}
		havePrice = true
	}()
	discount := sdk.ZeroDec()
	paid := base
	if havePrice && referred {
		discount = sdk.NewDecWithPrec(10, 2)
		if b.days > 365 {
			discount = sdk.NewDecWithPrec(5, 2)
		}
		paid = base.ToDec().Mul(sdk.OneDec().Sub(discount)).TruncateInt()
	}
	if b.short {
		if !havePrice || !paid.IsPositive() {
			return nil, "skipped/short-without-price"
		}
		payer = w.A("poor")
		if !b.forOther {
			forAcc = payer // "self"
			// the pay-for-self case with a fresh account: plan state is 'none' for it; keep the group label honest
		}
		if err := w.App.BankKeeper.SendCoins(ctx, w.A("funder").Addr, payer.Addr, sdk.NewCoins(sdk.NewCoin("ujkl", paid.SubRaw(1)))); err != nil {
			return nil, "skipped/price-beyond-the-funds-of-the-harness" // nobody in this world can hold price-1
		}
		if b.referral == "self" || b.referral == "self-caps" {
			refStr = payer.Bech
		}
	}
	if b.dup { // same size, duration and referral by B for itself: same gauge identity when the price is the same
		other := w.A("B")
		m0 := storagetypes.NewMsgBuyStorage(other.Bech, other.Bech, b.days, b.bytes, "ujkl")
		m0.Referral = refStr
		env.Deliver(m0)
		ctx = env.Ctx()
	}
	before := w.Balances(ctx)
	supBefore := w.App.BankKeeper.GetSupply(ctx, "ujkl").Amount
	storeBefore := w.DumpStore(ctx, "storage")
	creator := payer.Bech
	if b.referral == "self-caps" {
		creator = strings.ToUpper(creator)
	}
	forStr := forAcc.Bech
	if b.forCaps {
		forStr = strings.ToUpper(forStr)
	}
	msg := storagetypes.NewMsgBuyStorage(creator, forStr, b.days, b.bytes, "ujkl")
	msg.Referral = refStr
	res := env.Deliver(msg)
	ctx = env.Ctx()
	afterBal := w.Balances(ctx)
	if _, bad := afterBal[world.BalancesUnreadable]; bad {
		return []mc.Viol{viol("no-other-balance-changes", "balances-unreadable", "after the payment the bank module can no longer walk its balances (%s): tokens were credited to an address it cannot decode", w.BalancesPanic)}, "accepted/corrupt-balances"
	}
	d := world.BalDiff(before, afterBal)
	pol, _ := jkltypes.GetPOLAccount()
	feeColl := authtypes.NewModuleAddress(authtypes.FeeCollectorName).String()
	stMod := modAddr(storagetypes.ModuleName).String()
	labels := map[string]string{pol.String(): "POL", feeColl: "fee-collector", stMod: "storage-module"}
	if !w.App.BankKeeper.GetSupply(ctx, "ujkl").Amount.Equal(supBefore) {
		vs = append(vs, viol("total-supply-unchanged", "supply", "supply changed"))
	}
	if !res.OK() {
		if len(d) != 0 || !storeEqual(storeBefore, w.DumpStore(ctx, "storage")) {
			vs = append(vs, viol("failed-purchase-debits-nothing", "changed", "failed purchase changed state: balances %s", diffString(w, d, labels)))
		}
		if b.short {
			return vs, "rejected/short"
		}
		return vs, "rejected"
	}
	class = "accepted"
	if referred {
		class += "/referred"
	}
	if b.short {
		vs = append(vs, viol("payer-debited-exactly-the-price", "accepted-with-insufficient-funds", "payer held price-1 but the purchase succeeded"))
	}
	if !havePrice {
		vs = append(vs, viol("payer-debited-exactly-the-price", "no-price", "purchase accepted although the chain's price function fails on the pre-state"))
		return vs, class
	}
	debit := deltaOf(d, payer.Bech, "ujkl").Neg()
	if !debit.Equal(paid) {
		vs = append(vs, viol("payer-debited-exactly-the-price", "debit", "price %s (base %s, discount %s), payer debit %s; changes %s", paid, base, discount, debit, diffString(w, d, labels)))
	}
	// gauge: funded with exactly what it records
	credits := sdk.ZeroInt()
	known := map[string]bool{payer.Bech: true, stMod: true}
	gaugeSeen := false
	for _, pg := range k.GetAllPaymentGauges(ctx) {
		acc, _ := storagetypes.GetGaugeAccount(pg)
		inc := deltaOf(d, acc.String(), "ujkl")
		if inc.IsZero() {
			continue
		}
		gaugeSeen = true
		known[acc.String()] = true
		labels[acc.String()] = "gauge"
		credits = credits.Add(inc)
		if !w.App.BankKeeper.GetAllBalances(ctx, acc).IsEqual(pg.Coins) {
			vs = append(vs, viol("gauge-funded-with-what-it-records", "gauge", "gauge records %s, its account holds %s", pg.Coins, w.App.BankKeeper.GetAllBalances(ctx, acc)))
		}
	}
	if !gaugeSeen && debit.IsPositive() {
		spr := sdk.NewDec(100 - g.pol - g.ref).QuoInt64(100)
		if debit.ToDec().Mul(spr).TruncateInt().IsPositive() {
			vs = append(vs, viol("gauge-funded-with-what-it-records", "no-gauge-funded", "no gauge account was credited; changes %s", diffString(w, d, labels)))
		}
	}
	polRate := sdk.NewDec(g.pol).QuoInt64(100).Sub(discount)
	polWant := debit.ToDec().Mul(polRate).TruncateInt()
	polGot := deltaOf(d, pol.String(), "ujkl")
	known[pol.String()] = true
	credits = credits.Add(polGot)
	if !within1(polGot, polWant) {
		vs = append(vs, viol("liquidity-share", "pol", "paid %s, POL rate %s: expected %s, POL received %s", debit, polRate, polWant, polGot))
	}
	refWant := debit.ToDec().Mul(sdk.NewDec(g.ref).QuoInt64(100)).TruncateInt()
	if referred {
		raddr := refAddr
		known[raddr] = true
		got := deltaOf(d, raddr, "ujkl")
		credits = credits.Add(got)
		if !within1(got, refWant) {
			vs = append(vs, viol("referrer-receives-the-referral-percentage", "referrer-paid-another-share", "paid %s, referral %d%%: expected %s, referrer received %s (POL received %s)", debit, g.ref, refWant, got, polGot))
		}
	} else {
		known[feeColl] = true
		got := deltaOf(d, feeColl, "ujkl")
		credits = credits.Add(got)
		if !within1(got, refWant) {
			vs = append(vs, viol("stakers-receive-the-referral-percentage", "fee-pool", "paid %s, referral %d%%: expected %s, fee pool received %s", debit, g.ref, refWant, got))
		}
	}
	if credits.GT(debit) {
		vs = append(vs, viol("credits-never-exceed-debit", "over", "debit %s, credits %s", debit, credits))
	}
	if !deltaOf(d, stMod, "ujkl").Equal(debit.Sub(credits)) {
		vs = append(vs, viol("remainder-stays-in-storage-module", "remainder", "debit %s credits %s, module changed by %s; changes %s", debit, credits, deltaOf(d, stMod, "ujkl"), diffString(w, d, labels)))
	}
	for a := range d {
		if !known[a] {
			vs = append(vs, viol("no-other-balance-changes", "other", "changes %s", diffString(w, d, labels)))
		}
	}
	return vs, class
}

// pay-once file post
func c04RunPayOnce(env world.Env, g c04Group, total int64, expiryBlocks int64, short bool, dup bool) (vs []mc.Viol, class string) {
	w := env.W()
	k := w.App.StorageKeeper
	ctx := env.Ctx()
	payer := w.A("A")
	f := mkFile(seqBytes(9, 2), 1024)
	kbs := total / 1000
	if kbs < 1024 {
		kbs = 1024
	}
	hours := expiryBlocks * 6 / 60 / 60
	var cost sdk.Int
	have := false
	func() {
		defer func() { _ = recover() }()
		cost = k.GetStorageCostKbs(ctx, kbs, hours)
		have = true
	}()
	if short {
		if !have || !cost.IsPositive() {
			return nil, "skipped/short-without-price"
		}
		payer = w.A("poor")
		if err := w.App.BankKeeper.SendCoins(ctx, w.A("funder").Addr, payer.Addr, sdk.NewCoins(sdk.NewCoin("ujkl", cost.SubRaw(1)))); err != nil {
			return nil, "skipped/price-beyond-the-funds-of-the-harness"
		}
	}
	if dup { // an identical pay-once post (other payer, other content) in the same block: same gauge identity
		f2 := mkFile(seqBytes(9, 3), 1024)
		m0 := storagetypes.NewMsgPostFile(w.A("B").Bech, f2.merkle, total, 0, 0, 1, "{}")
		m0.Expires = ctx.BlockHeight() + expiryBlocks
		env.Deliver(m0)
		ctx = env.Ctx()
	}
	before := w.Balances(ctx)
	storeBefore := w.DumpStore(ctx, "storage")
	supBefore := w.App.BankKeeper.GetSupply(ctx, "ujkl").Amount
	msg := storagetypes.NewMsgPostFile(payer.Bech, f.merkle, total, 0, 0, 1, "{}")
	msg.Expires = ctx.BlockHeight() + expiryBlocks
	res := env.Deliver(msg)
	ctx = env.Ctx()
	afterBal := w.Balances(ctx)
	if _, bad := afterBal[world.BalancesUnreadable]; bad {
		return []mc.Viol{viol("no-other-balance-changes", "balances-unreadable", "after the payment the bank module can no longer walk its balances (%s): tokens were credited to an address it cannot decode", w.BalancesPanic)}, "accepted/corrupt-balances"
	}
	d := world.BalDiff(before, afterBal)
	stMod := modAddr(storagetypes.ModuleName).String()
	labels := map[string]string{stMod: "storage-module"}
	if !w.App.BankKeeper.GetSupply(ctx, "ujkl").Amount.Equal(supBefore) {
		vs = append(vs, viol("total-supply-unchanged", "supply", "supply changed"))
	}
	if !res.OK() {
		if len(d) != 0 || !storeEqual(storeBefore, w.DumpStore(ctx, "storage")) {
			vs = append(vs, viol("failed-purchase-debits-nothing", "changed", "failed pay-once post changed state: %s", diffString(w, d, labels)))
		}
		return vs, "rejected/pay-once"
	}
	if short {
		vs = append(vs, viol("payer-debited-exactly-the-price", "accepted-with-insufficient-funds", "payer held price-1 but the post succeeded"))
	}
	debit := deltaOf(d, payer.Bech, "ujkl").Neg()
	if !have || !debit.Equal(cost) {
		vs = append(vs, viol("payer-debited-exactly-the-price", "pay-once-debit", "cost %s (have=%v), debit %s", cost, have, debit))
	}
	credits := sdk.ZeroInt()
	known := map[string]bool{payer.Bech: true, stMod: true}
	for _, pg := range k.GetAllPaymentGauges(ctx) {
		acc, _ := storagetypes.GetGaugeAccount(pg)
		inc := deltaOf(d, acc.String(), "ujkl")
		if inc.IsZero() {
			continue
		}
		known[acc.String()] = true
		credits = credits.Add(inc)
		if !w.App.BankKeeper.GetAllBalances(ctx, acc).IsEqual(pg.Coins) {
			vs = append(vs, viol("gauge-funded-with-what-it-records", "gauge", "gauge records %s, its account holds %s", pg.Coins, w.App.BankKeeper.GetAllBalances(ctx, acc)))
		}
	}
	if credits.GT(debit) {
		vs = append(vs, viol("credits-never-exceed-debit", "over", "debit %s, credits %s", debit, credits))
	}
	if !deltaOf(d, stMod, "ujkl").Equal(debit.Sub(credits)) {
		vs = append(vs, viol("remainder-stays-in-storage-module", "remainder", "debit %s credits %s, module changed by %s", debit, credits, deltaOf(d, stMod, "ujkl")))
	}
	for a := range d {
		if !known[a] {
			vs = append(vs, viol("no-other-balance-changes", "other", "changes %s", diffString(w, d, labels)))
		}
	}
	return vs, "accepted/pay-once"
}

func c04Enum(thorough bool) mc.Enum {
	e := mc.Enum{Prop: "C04", Name: "C04/payments", Cfg: c04Config(), ConfirmB: true, ConfB: 60}
	plans := []string{"none", "smaller", "larger", "usage", "expired"}
	feeds := []string{"", "0.24", "1", "0.001"}
	ratios := [][2]int64{{40, 25}, {0, 0}, {35, 25}, {60, 40}, {10, 90}, {30, 25}}
	bytesSet := []int64{gbBytes / 2, gbBytes, 3 * gbBytes, 5_000 * gbBytes, 20_000 * gbBytes}
	daysSet := []int64{1, 29, 30, 365, 366, 400}
	refs := []string{"none", "self", "other", "name-other", "name-self", "unregistered", "garbage", "self-caps", "fresh"}
	if thorough {
		feeds = append(feeds, "0", "-1", "abc", "1000000")
		ratios = append(ratios, [2]int64{100, 0}, [2]int64{0, 100}, [2]int64{5, 5})
		bytesSet = append(bytesSet, 4_999*gbBytes, 19_999*gbBytes+1, 9_000_000*gbBytes)
		daysSet = append(daysSet, 31, 3650)
	}
	for _, plan := range plans {
		for _, feed := range feeds {
			for _, rt := range ratios {
				g := c04Group{plan: plan, feed: feed, pol: rt[0], ref: rt[1]}
				c := mc.Case{Desc: g.String(), Prep: func(env world.Env) { c04Setup(env, g) }}
				for _, by := range bytesSet {
					for _, dd := range daysSet {
						for _, rf := range refs {
							for _, fo := range []bool{false, true} {
								for _, sh := range []bool{false, true} {
									c.Subs = append(c.Subs, c04Buy{bytes: by, days: dd, referral: rf, forOther: fo, short: sh}.String())
								}
							}
						}
					}
				}
				for _, dd := range []int64{30, 400} {
					for _, rf := range []string{"none", "other"} {
						c.Subs = append(c.Subs, c04Buy{bytes: 3 * gbBytes, days: dd, referral: rf, dup: true}.String())
					}
				}
				for _, by := range bytesSet {
					for _, dd := range []int64{30, 400} {
						for _, fo := range []bool{false, true} {
							c.Subs = append(c.Subs, c04Buy{bytes: by, days: dd, referral: "none", forOther: fo, forCaps: true}.String())
						}
					}
				}
				{ // round 12: pay-once posts in every existing-plan state of the payer (a plan must not pay for them)
					for _, total := range []int64{1, 1_000_000, 5_000_000_000} {
						for _, exp := range []int64{14_399, 14_400, 5_256_000} {
							for _, sh := range []bool{false, true} {
								c.Subs = append(c.Subs, fmt.Sprintf("payonce|total=%d|expiry=%d|short=%v|dup=false", total, exp, sh))
							}
							c.Subs = append(c.Subs, fmt.Sprintf("payonce|total=%d|expiry=%d|short=false|dup=true", total, exp))
						}
					}
				}
				c.Sub = func(env world.Env, sub string) mc.CaseResult {
					var vs []mc.Viol
					var class string
					if strings.HasPrefix(sub, "payonce|") {
						var total, exp int64
						var sh, dup bool
						if _, err := fmt.Sscanf(sub, "payonce|total=%d|expiry=%d|short=%t|dup=%t", &total, &exp, &sh, &dup); err != nil {
							panic(err)
						}
						vs, class = c04RunPayOnce(env, g, total, exp, sh, dup)
					} else {
						var b c04Buy
						f := strings.Split(sub, "|")
						fmt.Sscanf(f[0], "bytes=%d", &b.bytes)
						fmt.Sscanf(f[1], "days=%d", &b.days)
						b.referral = strings.TrimPrefix(f[2], "ref=")
						fmt.Sscanf(f[3], "forOther=%t", &b.forOther)
						fmt.Sscanf(f[4], "short=%t", &b.short)
						if len(f) > 5 {
							fmt.Sscanf(f[5], "dup=%t", &b.dup)
						}
						if len(f) > 6 {
							fmt.Sscanf(f[6], "forCaps=%t", &b.forCaps)
						}
						vs, class = c04RunBuy(env, g, b)
					}
					return mc.CaseResult{Viols: vs, Class: class, Nontrivial: strings.HasPrefix(class, "accepted")}
				}
				e.Cases = append(e.Cases, c)
			}
		}
	}
	return e
}

func init() {
	CaseReplayers["C04/payments"] = func(r *mc.Run, c string) { r.ReplayCase(c04Enum(true), c) }
	Props["C04"] = Prop{Level: "exploration", Run: func(r *mc.Run, tier string) {
		r.Rules = append(r.Rules, "full product existing-plan state {none, active smaller, active larger, active with usage above the request, expired} x price feed {absent,0.24,1,0.001} x (POL,referral) ratios {(40,25),(0,0),(35,25),(60,40),(10,90),(30,25)} x bytes {0.5,1,3,5000,20000 GB} x days {1,29,30,365,366,400} x referral {none,self,other address,name of other,name of self,unregistered name,garbage} x recipient {self,other; also spelled in capitals} x payer balance {ample, price-1}; pay-once posts size {1,1e6,5e9} x expiry {<1 day,1 day,1 year} x balance x every existing-plan state of the payer; every evaluation snapshots all balances and total supply. Non-trivial = accepted purchases")
		r.Assumptions = append(r.Assumptions, "the chain's own price functions evaluated on the pre-state are the reference for 'the price the chain computes'; the 10%/5% referral discount is applied by the harness", "ratio pairs with sum <= 100")
		dl := time.Time{}
		r.AddEnum(c04Enum(tier == "thorough"), workers(), dl)
	}}
}
