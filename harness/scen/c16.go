package scen

import (
	"fmt"
	"strings"
	"time"

	"github.com/cosmos/cosmos-sdk/codec"
	sdk "github.com/cosmos/cosmos-sdk/types"

	"github.com/jackalLabs/canine-chain/v4/app"
	jkltypes "github.com/jackalLabs/canine-chain/v4/types"
	rnstypes "github.com/jackalLabs/canine-chain/v4/x/rns/types"

	"verif/harness/mc"
	"verif/harness/world"
)

// C16 — registering a name charges the listed price and yields a live name for the term.

const (
	c16Start      = int64(12_000_000) // more than two years of blocks, so "long after expiry" is reachable
	c16YearBlocks = int64(5_484_530)
)

// the "listed price": transcribed once from x/rns/types/tlds.go + GetCostOfName and frozen here
func c16Price(nameLen int, tld string) int64 {
	base := map[string]int64{"jkl": 10_000_000, "ibc": 50_000_000}[tld]
	switch nameLen {
	case 1:
		return base * 24
	case 2:
		return base * 12
	case 3:
		return base * 6
	case 4:
		return base * 3
	}
	return base
}

type c16Seed struct {
	name, tld string
	expires   int64
}

var c16Seeds = []c16Seed{
	{"o", "jkl", 1000},            // expired long ago, 1 char
	{"old", "jkl", 1000},          // expired long ago
	{"expired", "ibc", 6_000_000}, // expired about one year ago
	{"soon", "jkl", c16Start + 3}, // live for two more blocks, boundary at +3, expired from +4
	{"soonx", "ibc", c16Start + 3},
	{"live", "jkl", c16Start + 1_000_000}, // live throughout
}

func c16Config() world.Config {
	return world.Config{
		Accounts:    []string{"A", "B", "P"},
		Balances:    map[string]sdk.Coins{"P": sdk.NewCoins(sdk.NewInt64Coin("ujkl", 15_000_000))},
		StartHeight: c16Start,
		GenesisMod: func(cdc codec.JSONCodec, gs app.GenesisState) {
			var g rnstypes.GenesisState
			cdc.MustUnmarshalJSON(gs[rnstypes.ModuleName], &g)
			for _, s := range c16Seeds {
				g.NamesList = append(g.NamesList, rnstypes.Names{Name: s.name, Tld: s.tld, Expires: s.expires, Value: world.MakeAcct("A").Bech, Data: "{}", Subdomains: []*rnstypes.Names{}})
			}
			// the starter names the Init message would generate at the first heights of this chain, held by A as paid, live names
			for h := c16Start - 1; h <= c16Start+8; h++ {
				g.NamesList = append(g.NamesList, rnstypes.Names{Name: rnstypes.MakeName(int(h), h), Tld: "jkl", Expires: c16Start + 1_000_000, Value: world.MakeAcct("A").Bech, Data: `{"paid":true}`, Subdomains: []*rnstypes.Names{}})
			}
			gs[rnstypes.ModuleName] = cdc.MustMarshalJSON(&g)
		},
	}
}

// c16Register performs one registration and checks every clause of the statement on it.
func c16Register(env world.Env, who, full string, years int64) mc.CaseResult {
	w := env.W()
	k := w.App.RnsKeeper
	caps := strings.HasSuffix(who, "^") // the registrant signs with the capital spelling of its address
	who = strings.TrimSuffix(who, "^")
	acct := w.A(who)
	creator := acct.Bech
	if caps {
		creator = strings.ToUpper(creator)
	}
	// the harness' own reading of the name: lower-case, spaces dropped, split at the last dot
	norm := strings.ReplaceAll(strings.ToLower(full), " ", "")
	dot := strings.LastIndex(norm, ".")
	nm, tld := norm, ""
	if dot >= 0 {
		nm, tld = norm[:dot], norm[dot+1:]
	}
	ctx := env.Ctx()
	height := ctx.BlockHeight()
	prev, had := k.GetNames(ctx, nm, tld)
	pol, _ := jkltypes.GetPOLAccount()
	rnsMod := modAddr(rnstypes.ModuleName).String()
	before := w.Balances(ctx)
	res := env.Deliver(rnstypes.NewMsgRegisterName(creator, full, years, "{}", false))
	ctx = env.Ctx()
	d := world.BalDiff(before, w.Balances(ctx))
	labels := map[string]string{pol.String(): "POL", rnsMod: "rns-module"}
	var vs []mc.Viol
	cr := mc.CaseResult{Class: "rejected"}
	state := "fresh"
	if had {
		switch {
		case height < prev.Expires:
			state = "live"
		case height == prev.Expires:
			state = "boundary"
		default:
			state = "expired"
		}
		if pa, perr := sdk.AccAddressFromBech32(prev.Value); prev.Value == acct.Bech || (perr == nil && pa.Equals(acct.Addr)) {
			state += "-own"
		} else {
			state += "-other"
		}
	}
	if !res.OK() {
		// a renewal of a still-live name by its owner extends it: with a term in the accepted range and the price at hand it goes through
		if state == "live-own" && years >= 1 && years <= 10 && before[acct.Bech].AmountOf("ujkl").GTE(sdk.NewInt(years).MulRaw(c16Price(len(nm), tld))) {
			vs = append(vs, viol("owner-renews-a-live-name", "rejected", "%s (owner of live %q, expires %d, height %d, funds %s) could not renew for %d years: %v", who, norm, prev.Expires, height, before[acct.Bech].AmountOf("ujkl"), years, res.Err))
		}
		if len(d) != 0 {
			vs = append(vs, viol("failed-registration-costs-nothing", "moved", "failed registration of %q changed balances %s", full, diffString(w, d, labels)))
		}
		cr.Class = "rejected/" + state
		cr.Viols = vs
		return cr
	}
	cr.Class = "accepted/" + state
	cr.Nontrivial = true
	price := sdk.NewInt(years).MulRaw(c16Price(len(nm), tld)) // arbitrary precision: the reference must not wrap around
	if !deltaOf(d, acct.Bech, "ujkl").Equal(price.Neg()) {
		vs = append(vs, viol("debit-is-years-times-yearly-price", "debit", "%q x%d: expected debit %s, balance changes %s", full, years, price, diffString(w, d, labels)))
	}
	if !deltaOf(d, pol.String(), "ujkl").Equal(price) {
		vs = append(vs, viol("all-of-it-reaches-liquidity", "pol", "%q x%d: expected POL credit %s, balance changes %s", full, years, price, diffString(w, d, labels)))
	}
	if len(d) != 2 {
		vs = append(vs, viol("no-other-balance-changes", "extra", "balance changes %s", diffString(w, d, labels)))
	}
	now, found := k.GetNames(ctx, nm, tld)
	addr, rerr := k.Resolve(ctx, norm)
	if !found || rerr != nil || !addr.Equals(acct.Addr) {
		vs = append(vs, viol("resolves-to-registrant", "resolve", "%q resolves to %v (err %v), registrant %s", norm, addr, rerr, who))
	}
	if state == "live-other" {
		vs = append(vs, viol("live-name-only-by-owner", "takeover", "%s registered %q while it was live and owned by %s (expires %d, height %d)", who, norm, w.NameOf(prev.Value), prev.Expires, height))
	}
	if found {
		// whether anyone but the owner may register at height == Expires is unspecified, but whoever registers
		// successfully - also there - has paid for a full term counted from the current height
		if state == "live-own" {
			if !sdk.NewInt(now.Expires).Equal(sdk.NewInt(prev.Expires).Add(sdk.NewInt(years).MulRaw(c16YearBlocks))) {
				vs = append(vs, viol("renewal-extends-by-exactly-the-term", "renewal", "renewal x%d at height %d: expiry %d -> %d, expected %d", years, height, prev.Expires, now.Expires, prev.Expires+years*c16YearBlocks))
			}
		} else if sdk.NewInt(now.Expires).LT(sdk.NewInt(height).Add(sdk.NewInt(years).MulRaw(c16YearBlocks))) {
			vs = append(vs, viol("live-for-the-term", "state="+state, "registered %q x%d at height %d (previous expiry %d): new expiry %d < height + term = %d",
				norm, years, height, prev.Expires, now.Expires, height+years*c16YearBlocks))
		}
	}
	cr.Viols = vs
	return cr
}

func c16Enum(thorough bool) mc.Enum {
	e := mc.Enum{Prop: "C16", Name: "C16/register", Cfg: c16Config(), ConfirmB: true, ConfB: 150}
	maxLen, yearsSet := 6, []int64{1, 2, 5}
	if thorough {
		maxLen, yearsSet, e.ConfB = 8, []int64{1, 2, 3, 5, 10}, 1<<30
	}
	// year counts at the edges of the accepted range (stateless validation does not bound them): price and
	// expiry arithmetic must not wrap around
	yearsSet = append(yearsSet, 0, -1, 1_844_674_407_371, 922_337_203_685, 1<<62, 1_681_669_000_000, 76_861_433_641)
	// (a) first registrations
	letters := "abcdefgh"
	for l := 1; l <= maxLen; l++ {
		for _, tld := range []string{"jkl", "ibc"} {
			base := letters[:l]
			variants := []string{base + "." + tld, strings.ToUpper(base) + "." + tld, base + "." + strings.ToUpper(tld)}
			if l >= 2 {
				variants = append(variants, base[:1]+" "+base[1:]+"."+tld)
			}
			for _, full := range variants {
				for _, years := range yearsSet {
					for _, who := range []string{"A", "B", "P"} {
						full, years, who := full, years, who
						e.Cases = append(e.Cases, mc.Case{Desc: fmt.Sprintf("first|%s|%d|%s", full, years, who), Run: func(env world.Env) mc.CaseResult {
							return c16Register(env, who, full, years)
						}})
					}
				}
			}
		}
	}
	// (a') labels that contain the letters of a top-level domain, their own or the other one, at every offset
	for _, full := range []string{"myjklname.jkl", "jklfan.jkl", "ajkl.jkl", "fanjkl.jkl", "jkl.jkl", "anibcfan.ibc", "ibcx.ibc", "ibc.ibc", "jkl.ibc", "xibc.jkl", "jkljkl.jkl", "a.jkl.jkl"} {
		for _, years := range []int64{1, 2} {
			for _, who := range []string{"A", "B"} {
				full, years, who := full, years, who
				e.Cases = append(e.Cases, mc.Case{Desc: fmt.Sprintf("first|%s|%d|%s", full, years, who), Run: func(env world.Env) mc.CaseResult {
					return c16Register(env, who, full, years)
				}})
			}
		}
	}
	// (b) second registration of a genesis-seeded name at block offsets around its expiry
	for _, s := range c16Seeds {
		for blocks := 0; blocks <= 4; blocks++ {
			for _, who := range []string{"A", "B"} {
				for _, years := range yearsSet {
					s, blocks, who, years := s, blocks, who, years
					e.Cases = append(e.Cases, mc.Case{Desc: fmt.Sprintf("again|%s.%s|+%d|%s|%d", s.name, s.tld, blocks, who, years), Run: func(env world.Env) mc.CaseResult {
						for i := 0; i < blocks; i++ {
							env.NextBlock(6 * time.Second)
						}
						return c16Register(env, who, s.name+"."+s.tld, years)
					}})
				}
			}
		}
	}
	// (e) a live name that its owner has put on the marketplace (or that carries open bids) is still only its owner's to register
	for _, prep := range []string{"listed", "bid-on", "listed+bid-on", "primary-of-B", "handed-to-B"} {
		for _, who := range []string{"B", "A"} {
			for _, nm := range []string{"live.jkl", "soon.jkl"} {
				prep, who, nm := prep, who, nm
				e.Cases = append(e.Cases, mc.Case{Desc: fmt.Sprintf("marketplace|%s|%s|%s", prep, nm, who), Run: func(env world.Env) mc.CaseResult {
					w := env.W()
					if strings.Contains(prep, "listed") {
						mustOK(env.Deliver(rnstypes.NewMsgList(w.A("A").Bech, nm, sdk.NewInt64Coin("ujkl", 5))), "List")
					}
					if prep == "primary-of-B" { // B points its primary name at A's live name (the chain lets anybody do that)
						mp := rnstypes.NewMsgMakePrimary(nm)
						mp.Creator = w.A("B").Bech
						mustOK(env.Deliver(mp), "MakePrimary")
					}
					if prep == "handed-to-B" { // A makes the name its primary name, then transfers it to B: A's pointer stays behind
						mp := rnstypes.NewMsgMakePrimary(nm)
						mp.Creator = w.A("A").Bech
						mustOK(env.Deliver(mp), "MakePrimary")
						mustOK(env.Deliver(rnstypes.NewMsgTransfer(w.A("A").Bech, nm, w.A("B").Bech)), "Transfer")
					}
					if strings.Contains(prep, "bid-on") {
						mustOK(env.Deliver(rnstypes.NewMsgBid(w.A("B").Bech, nm, sdk.NewInt64Coin("ujkl", 7))), "Bid")
					}
					env.NextBlock(6 * time.Second)
					return c16Register(env, who, nm, 1)
				}})
			}
		}
	}
	// (d) the free-name message at a height whose generated starter name is somebody's paid, live name
	for off := 0; off <= 4; off++ {
		off := off
		e.Cases = append(e.Cases, mc.Case{Desc: fmt.Sprintf("init-over-live|+%d|B", off), Run: func(env world.Env) mc.CaseResult {
			w := env.W()
			k := w.App.RnsKeeper
			for i := 0; i < off; i++ {
				env.NextBlock(6 * time.Second)
			}
			h := env.Ctx().BlockHeight()
			name := rnstypes.MakeName(int(h), h)
			prev, had := k.GetNames(env.Ctx(), name, "jkl")
			if !had {
				panic(fmt.Sprintf("harness: the starter name of height %d is not seeded", h))
			}
			res := env.Deliver(rnstypes.NewMsgInit(w.A("B").Bech))
			cr := mc.CaseResult{Class: "init-rejected/live-other", Nontrivial: true}
			if res.OK() {
				cr.Class = "init-accepted/live-other"
			}
			now, found := k.GetNames(env.Ctx(), name, "jkl")
			if !found || now.Value != prev.Value || now.Expires != prev.Expires {
				cr.Viols = append(cr.Viols, viol("live-name-only-by-owner", "takeover-by-init", "height %d: Init by B (accepted=%v) changed the live paid name %s.jkl of A: owner %s -> %s, expiry %d -> %d", h, res.OK(), name, w.NameOf(prev.Value), w.NameOf(now.Value), prev.Expires, now.Expires))
			}
			return cr
		}})
	}
	// (f) a starter name handed out by the free-name message, still inside its free (locked) term: its owner pays to
	// extend it, or another account tries to register it
	for _, years := range []int64{1, 2} {
		for _, who := range []string{"B", "A"} {
			for _, wait := range []int{1, 3} {
				years, who, wait := years, who, wait
				e.Cases = append(e.Cases, mc.Case{Desc: fmt.Sprintf("starter|owner=B|+%d blocks|%s|%d", wait, who, years), Run: func(env world.Env) mc.CaseResult {
					w := env.W()
					var h int64
					var name string
					for i := 0; i < 12; i++ { // past the heights whose starter names are seeded as paid names (the two seams start at different heights)
						h = env.Ctx().BlockHeight()
						name = rnstypes.MakeName(int(h), h)
						if _, taken := w.App.RnsKeeper.GetNames(env.Ctx(), name, "jkl"); !taken && i >= 1 {
							break
						}
						env.NextBlock(6 * time.Second)
					}
					mustOK(env.Deliver(rnstypes.NewMsgInit(w.A("B").Bech)), "Init")
					if n, ok := w.App.RnsKeeper.GetNames(env.Ctx(), name, "jkl"); !ok || n.Value != w.A("B").Bech {
						panic("harness: Init did not hand out the starter name of its height")
					}
					for i := 0; i < wait; i++ {
						env.NextBlock(6 * time.Second)
					}
					return c16Register(env, who, name+".jkl", years)
				}})
			}
		}
	}
	// (c) register twice in a row (renewal of a just-registered name, takeover attempt of a just-registered name)
	for _, y1 := range []int64{1, 2} {
		for _, y2 := range []int64{1, 5} {
			for _, second := range []string{"A", "B", "A^", "^A", "^B"} { // ^X: the first registration was signed in capitals; X^: the second
				y1, y2, second := y1, y2, second
				first := "A"
				if strings.HasPrefix(second, "^") {
					first, second = "A^", strings.TrimPrefix(second, "^")
				}
				e.Cases = append(e.Cases, mc.Case{Desc: fmt.Sprintf("twice|fresh.jkl|%d|%d|%s then %s", y1, y2, first, second), Run: func(env world.Env) mc.CaseResult {
					c16Register(env, first, "fresh.jkl", y1)
					env.NextBlock(6 * time.Second)
					return c16Register(env, second, "Fresh.jkl", y2)
				}})
			}
		}
	}
	return e
}

func init() {
	CaseReplayers["C16/register"] = func(r *mc.Run, c string) { r.ReplayCase(c16Enum(true), c) }
	Props["C16"] = Prop{Level: "exploration", Run: func(r *mc.Run, tier string) {
		r.Rules = append(r.Rules, "full product: names of length 1..6 x {jkl,ibc} x case/space variants (and 12 labels that contain the letters of a top-level domain) x years {1,2,5} x registrant {A,B,under-funded P}; every genesis-seeded name (expired long ago / a year ago / expiring in 3 blocks / live) x block offset 0..4 x {owner, other} x years; register-twice sequences; a live name another account has pointed its primary name at; a starter name from the free-name message extended by its owner or tried by another account inside its free term. Non-trivial = accepted registrations; distinct by outcome class (accepted|rejected / fresh|live|boundary|expired x own|other)")
		r.Assumptions = append(r.Assumptions, "yearly price table frozen in the harness (10M ujkl jkl, 50M ibc; x24,12,6,3,1 by length)", "height == Expires unspecified", "chain starts at height 12,000,000 so that multi-year expiries lie in the past")
		r.AddEnum(c16Enum(true), workers(), time.Time{})
	}}
}
