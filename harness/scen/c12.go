package scen

import (
	"fmt"
	"strings"
	"time"

	sdk "github.com/cosmos/cosmos-sdk/types"

	storagemodule "github.com/jackalLabs/canine-chain/v4/x/storage"
	storagetypes "github.com/jackalLabs/canine-chain/v4/x/storage/types"

	"verif/harness/mc"
	"verif/harness/world"
)

// C12 — payment gauges stream linearly and never release more than the pro-rata deposit.

func c12Config() world.Config {
	return world.Config{
		Accounts: []string{"F", "U1", "U2", "U3", "P"},
		Balances: map[string]sdk.Coins{"F": sdk.NewCoins(sdk.NewCoin("ujkl", sdk.NewIntWithDecimal(1, 20)), sdk.NewCoin("uatom", sdk.NewIntWithDecimal(1, 20)))},
		Storage:  func(p *storagetypes.Params) { p.CheckWindow = 2 },
	}
}

type c12Gauge struct {
	acc     sdk.AccAddress
	start   time.Time
	end     time.Time
	deposit sdk.Coins // what was deposited for this gauge
	prevCum map[string]sdk.Int
}

// c12Points: the reward-block time alphabet relative to a gauge of duration D starting at s.
func c12Points(s time.Time, D time.Duration) []time.Time {
	us := time.Microsecond
	return []time.Time{s, s.Add(us), s.Add(D / 7), s.Add(D / 3), s.Add(D / 2), s.Add(D - us), s.Add(D), s.Add(D + us), s.Add(2 * D)}
}

// nonDecreasingSeqs enumerates all weakly increasing index sequences of length 1..maxLen over n points.
func nonDecreasingSeqs(n, maxLen int) [][]int {
	var out [][]int
	var rec func(cur []int, from int)
	rec = func(cur []int, from int) {
		if len(cur) > 0 {
			out = append(out, append([]int{}, cur...))
		}
		if len(cur) == maxLen {
			return
		}
		for i := from; i < n; i++ {
			rec(append(cur, i), i)
		}
	}
	rec(nil, 0)
	return out
}

// c12Check evaluates the statement for every tracked gauge after a reward block at time t.
func c12Check(w *world.World, ctx sdk.Context, gs []*c12Gauge, t time.Time, tag string) []mc.Viol {
	var vs []mc.Viol
	for gi, g := range gs {
		bal := w.App.BankKeeper.GetAllBalances(ctx, g.acc)
		for _, dep := range g.deposit {
			cum := dep.Amount.Sub(bal.AmountOf(dep.Denom)) // released so far
			prev := g.prevCum[dep.Denom]
			if cum.LT(prev) {
				vs = append(vs, viol("released-non-decreasing", "decreased", "%s gauge %d %s: cumulative %s -> %s", tag, gi, dep.Denom, prev, cum))
			}
			if cum.GT(dep.Amount) {
				vs = append(vs, viol("released-never-exceeds-deposit", "over-deposit", "%s gauge %d %s: released %s of %s", tag, gi, dep.Denom, cum, dep.Amount))
			}
			total := g.end.Sub(g.start).Microseconds()
			switch {
			case t.Before(g.start) || t.After(g.end):
				if !cum.Equal(prev) {
					vs = append(vs, viol("nothing-released-outside-the-interval", "outside", "%s gauge %d %s: released %s at a reward block outside [start,end]", tag, gi, dep.Denom, cum.Sub(prev)))
				}
			default:
				// "measured in whole microseconds": block times carry nanoseconds and the statement does not say which
				// way a fractional microsecond is rounded, so both roundings of the elapsed time are accepted
				elapsed := t.Sub(g.start).Microseconds()
				elapsedUp := total - g.end.Sub(t).Microseconds()
				want := dep.Amount.MulRaw(elapsed).QuoRaw(total) // floor(elapsed/total * deposit), exact integer arithmetic
				wantUp := dep.Amount.MulRaw(elapsedUp).QuoRaw(total)
				if cum.LT(want.SubRaw(1)) || cum.GT(wantUp.AddRaw(1)) {
					why := "less-than-pro-rata"
					if cum.GT(want) {
						why = "more-than-pro-rata"
					}
					vs = append(vs, viol("released-equals-elapsed-fraction-of-deposit", why, "%s gauge %d %s: elapsed %d/%d us of deposit %s: released %s, pro rata %s", tag, gi, dep.Denom, elapsed, total, dep.Amount, cum, want))
				}
			}
			g.prevCum[dep.Denom] = cum
		}
	}
	return vs
}

func c12Track(acc sdk.AccAddress, start, end time.Time, dep sdk.Coins) *c12Gauge {
	g := &c12Gauge{acc: acc, start: start, end: end, deposit: dep, prevCum: map[string]sdk.Int{}}
	for _, c := range dep {
		g.prevCum[c.Denom] = sdk.ZeroInt()
	}
	return g
}

// c12ModuleRun: gauges created through the keeper's NewGauge + a bank deposit, reward blocks through the storage
// module's own BeginBlocker at exactly the chosen times.
func c12ModuleRun(env world.Env, amount int64, denomMode int, D time.Duration, nGauges int, seq []int) mc.CaseResult {

	equal := nGauges < 0 // -n: n gauges with identical parameters created in the same block
	if equal {
		nGauges = -nGauges
	}
	stagger := nGauges >= 100 // 100+n: after the first reward block n further gauges are opened that END together with the first
	late := 0
	if stagger {
		late, nGauges = nGauges-100, 1
	}
	w := env.W()
	k := w.App.StorageKeeper
	ctx := env.Ctx()
	cr := mc.CaseResult{Class: "module"}
	start := ctx.BlockTime()
	var gs []*c12Gauge
	for i := 0; i < nGauges; i++ {
		j := int64(i)
		if equal {
			j = 0
		}
		coins := sdk.NewCoins(sdk.NewInt64Coin("ujkl", amount+j))
		if denomMode == 1 {
			coins = coins.Add(sdk.NewInt64Coin("uatom", amount*3+1)) // the earlier-sorted denomination is the larger one
		} else if denomMode == 2 {
			coins = coins.Add(sdk.NewInt64Coin("uatom", 7)) // ... or a tiny one that often accrues nothing in a block
		} else if denomMode == 3 {
			coins = sdk.NewCoins(sdk.NewInt64Coin("uatom", amount+j)) // a gauge holding no ujkl at all
		}
		end := start.Add(D).Add(time.Duration(j) * time.Hour)
		pg := k.NewGauge(ctx, coins, end)
		acc, _ := storagetypes.GetGaugeAccount(pg)
		if err := w.App.BankKeeper.SendCoins(ctx, w.A("F").Addr, acc, coins); err != nil {
			panic(err)
		}
		merged := false
		for _, g := range gs {
			if g.acc.Equals(acc) { // a further deposit for a gauge with the same identity
				g.deposit = g.deposit.Add(coins...)
				merged = true
			}
		}
		if !merged {
			gs = append(gs, c12Track(acc, start, end, coins))
		}
	}
	pts := c12Points(start, D)
	h := ctx.BlockHeight()
	for _, pi := range seq {
		h += 2 - h%2 // next even height: a reward block (CheckWindow 2)
		if h%2 != 0 {
			h++
		}
		bctx := ctx.WithBlockHeight(h).WithBlockTime(pts[pi]).WithEventManager(sdk.NewEventManager())
		modBefore := w.Bal(bctx, modAddr(storagetypes.ModuleName), "ujkl")
		var gaugesBefore sdk.Int = sdk.ZeroInt()
		for _, g := range gs {
			gaugesBefore = gaugesBefore.Add(w.Bal(bctx, g.acc, "ujkl"))
		}
		storagemodule.BeginBlocker(bctx, k)
		cr.Viols = append(cr.Viols, c12Check(w, bctx, gs, pts[pi], "module-seam")...)
		gaugesAfter := sdk.ZeroInt()
		for _, g := range gs {
			gaugesAfter = gaugesAfter.Add(w.Bal(bctx, g.acc, "ujkl"))
		}
		modAfter := w.Bal(bctx, modAddr(storagetypes.ModuleName), "ujkl")
		if !gaugesBefore.Sub(gaugesAfter).Equal(modAfter.Sub(modBefore)) {
			cr.Viols = append(cr.Viols, viol("released-tokens-reach-the-reward-pool", "leak", "gauges released %s ujkl, reward pool (no provers) grew by %s", gaugesBefore.Sub(gaugesAfter), modAfter.Sub(modBefore)))
		}
		if gaugesBefore.GT(gaugesAfter) {
			cr.Nontrivial = true
		}
		if stagger && late > 0 && pts[pi].Before(start.Add(D)) {
			for i := 0; i < late; i++ { // opened now, ending with the first gauge: same end, later start
				coins := sdk.NewCoins(sdk.NewInt64Coin("ujkl", amount*2+int64(i)+1))
				pg := k.NewGauge(bctx, coins, start.Add(D))
				acc, _ := storagetypes.GetGaugeAccount(pg)
				if err := w.App.BankKeeper.SendCoins(bctx, w.A("F").Addr, acc, coins); err != nil {
					panic(err)
				}
				gs = append(gs, c12Track(acc, pts[pi], start.Add(D), coins))
			}
			late = 0
		}
	}
	return cr
}

// c12AppRun: gauges created by real BuyStorage transactions (same block, equal or different parameters), reward
// blocks through the whole application (both seams).
// restart: after the purchases the storage module is restarted from its own exported genesis (export, JSON, validate,
// empty store, import); every gauge must go on releasing exactly as if nothing had happened.
// post: the gauges are opened by pay-once file posts (different files of different owners, 30 days) instead of plans.
// lapse: the first buyer also stores a file whose only prover never proves again, so that a reward block finds stored
// files but nobody to credit - the gauges stream all the same.
func c12AppRun(env world.Env, sameParams bool, buyers int, seq []int, restart bool, post bool, lapse ...bool) mc.CaseResult {
	w := env.W()
	k := w.App.StorageKeeper
	cr := mc.CaseResult{Class: "app"}
	D := 30 * day
	start := env.Ctx().BlockTime()
	gaugeBal := func() map[string]sdk.Coins {
		out := map[string]sdk.Coins{}
		for _, g := range k.GetAllPaymentGauges(env.Ctx()) {
			a, _ := storagetypes.GetGaugeAccount(g)
			out[a.String()] = w.App.BankKeeper.GetAllBalances(env.Ctx(), a)
		}
		return out
	}
	var gs []*c12Gauge
	for i := 0; i < buyers; i++ {
		u := w.A([]string{"U1", "U2", "U3"}[i])
		bytes := int64(1000_000_000_000)
		if !sameParams {
			bytes += int64(i) * 1_000_000_000
		}
		before := gaugeBal()
		if post {
			size := int64(12)
			if !sameParams {
				size = 2_000_000 + int64(i)*1_000_000
			}
			pm := storagetypes.NewMsgPostFile(u.Bech, mkFile(seqBytes(12, byte(i+1)), 4).merkle, size, 0, 0, 1, "{}")
			pm.Expires = env.Ctx().BlockHeight() + 30*14400
			mustOK(env.Deliver(pm), "pay-once PostFile")
		} else {
			mustOK(env.Deliver(storagetypes.NewMsgBuyStorage(u.Bech, u.Bech, 30, bytes, "ujkl")), "BuyStorage")
		}
		after := gaugeBal()
		// the deposit made for this purchase's gauge: whatever arrived in a gauge account
		for a, bal := range after {
			dep, _ := bal.SafeSub(before[a])
			if dep.IsAllPositive() && !dep.IsZero() {
				addr, _ := sdk.AccAddressFromBech32(a)
				merged := false
				for _, g := range gs {
					if g.acc.Equals(addr) { // a second deposit into the same gauge account
						g.deposit = g.deposit.Add(dep...)
						merged = true
					}
				}
				if !merged {
					gs = append(gs, c12Track(addr, start, start.Add(D), dep))
				}
			}
		}
	}
	// the gauge records must account for every deposit
	var recorded sdk.Coins
	for _, g := range k.GetAllPaymentGauges(env.Ctx()) {
		recorded = recorded.Add(g.Coins...)
	}
	var deposited sdk.Coins
	for _, g := range gs {
		deposited = deposited.Add(g.deposit...)
	}
	if !recorded.IsEqual(deposited) {
		cr.Viols = append(cr.Viols, viol("released-equals-elapsed-fraction-of-deposit", "gauge-records-do-not-cover-deposits", "deposited %s into gauge accounts, gauge records total %s (%d gauges for %d purchases)", deposited, recorded, len(k.GetAllPaymentGauges(env.Ctx())), buyers))
	}
	if len(lapse) > 0 && lapse[0] {
		setStorageParams(env, func(p *storagetypes.Params) { p.ProofWindow = 2 })
		u1, pr := w.A("U1").Bech, w.A("P").Bech
		f := mkFile(seqBytes(12, 99), 1024)
		h := env.Ctx().BlockHeight()
		mustOK(env.Deliver(storagetypes.NewMsgInitProvider(pr, "https://p.example.com", 1_000_000, "kb")), "InitProvider")
		mustOK(env.Deliver(storagetypes.NewMsgPostFile(u1, f.merkle, 12, 0, 0, 1, "{}")), "PostFile")
		item, hl := f.proofFor(0)
		if ok, e := postProofOK(w, env.Deliver(storagetypes.NewMsgPostProof(pr, f.merkle, u1, h, item, hl, 0))); !ok {
			panic("harness: join proof rejected: " + e)
		}
	}
	if restart {
		if err := restartModule(env, "storage"); err != nil {
			cr.Viols = append(cr.Viols, viol("released-equals-elapsed-fraction-of-deposit", "restart-failed", "export -> import of the storage module failed: %v", err))
			return cr
		}
	}
	pts := c12Points(start, D)
	for _, pi := range seq {
		// two blocks per reward block: an odd block at the same time, then the even (reward) block at the chosen time
		if env.Ctx().BlockHeight()%2 == 0 {
			if bp := env.NextBlock(0); bp != nil {
				cr.Viols = append(cr.Viols, viol("no-panic", "block-panic", "%s", bp.Value))
				return cr
			}
		}
		dt := pts[pi].Sub(env.Ctx().BlockTime())
		if dt < 0 {
			dt = 0
		}
		if bp := env.NextBlock(dt); bp != nil {
			cr.Viols = append(cr.Viols, viol("no-panic", "block-panic", "%s", bp.Value))
			return cr
		}
		cr.Viols = append(cr.Viols, c12Check(w, env.Ctx(), gs, env.Ctx().BlockTime(), "whole-app")...)
		cr.Nontrivial = true
	}
	return cr
}

func seqDesc(seq []int) string {
	names := []string{"s", "s+1us", "D/7", "D/3", "D/2", "D-1us", "D", "D+1us", "2D"}
	var o []string
	for _, i := range seq {
		o = append(o, names[i])
	}
	return strings.Join(o, ",")
}

func c12EnumModule(thorough bool) mc.Enum {
	e := mc.Enum{Prop: "C12", Name: "C12/gauges-module", Cfg: c12Config(), ConfirmB: false}
	amounts := []int64{1, 2, 3, 7, 10, 999, 1_000_003, 1_000_000_000_000_000}
	durs := []time.Duration{day, 30 * day, 365 * day}
	maxLen := 3
	if thorough {
		maxLen = 4
	}
	seqs := nonDecreasingSeqs(9, maxLen)
	for _, amt := range amounts {
		for _, D := range durs {
			for _, two := range []int{0, 1, 2, 3} {
				for _, n := range []int{1, 3, -2, -3, 101, 102} {
					amt, D, two, n := amt, D, two, n
					e.Cases = append(e.Cases, mc.Case{Desc: fmt.Sprintf("module|amount=%d|D=%s|denoms=%d|gauges=%d|%d sequences of <=%d reward times", amt, D, two, n, len(seqs), maxLen), Run: func(env world.Env) mc.CaseResult {
						out := mc.CaseResult{Class: "module"}
						ea := env.(*world.EnvA)
						for _, seq := range seqs {
							r := c12ModuleRun(ea.Fork(), amt, two, D, n, seq)
							out.Count++
							if r.Nontrivial {
								out.NontrivialCount++
							}
							for _, v := range r.Viols {
								v.Detail = "times " + seqDesc(seq) + ": " + v.Detail
								out.Viols = append(out.Viols, v)
							}
						}
						return out
					}})
				}
			}
		}
	}
	return e
}

func c12EnumApp(thorough bool) mc.Enum {
	e := mc.Enum{Prop: "C12", Name: "C12/gauges-app", Cfg: c12Config(), ConfirmB: true, ConfB: 30}
	maxLen := 2
	if thorough {
		maxLen = 3
		e.ConfB = 200
	}
	for _, seq := range nonDecreasingSeqs(9, maxLen) {
		for _, v := range []struct {
			same   bool
			buyers int
		}{{false, 1}, {false, 2}, {true, 2}, {true, 3}} {
			seq, v := seq, v
			e.Cases = append(e.Cases, mc.Case{Desc: fmt.Sprintf("app|buyers=%d|sameParams=%v|times=%s", v.buyers, v.same, seqDesc(seq)), Run: func(env world.Env) mc.CaseResult {
				return c12AppRun(env, v.same, v.buyers, seq, false, false)
			}})
			if v.buyers >= 2 {
				e.Cases = append(e.Cases, mc.Case{Desc: fmt.Sprintf("app|buyers=%d|sameParams=%v|times=%s|restart", v.buyers, v.same, seqDesc(seq)), Run: func(env world.Env) mc.CaseResult {
					return c12AppRun(env, v.same, v.buyers, seq, true, false)
				}})
				// a stored file whose only prover lapses: reward blocks with files but nobody to credit
				e.Cases = append(e.Cases, mc.Case{Desc: fmt.Sprintf("app|buyers=%d|sameParams=%v|times=%s|lapsing-prover", v.buyers, v.same, seqDesc(seq)), Run: func(env world.Env) mc.CaseResult {
					return c12AppRun(env, v.same, v.buyers, seq, false, false, true)
				}})
				// the same gauges opened by pay-once file posts in one block
				e.Cases = append(e.Cases, mc.Case{Desc: fmt.Sprintf("app|pay-once posts=%d|sameParams=%v|times=%s", v.buyers, v.same, seqDesc(seq)), Run: func(env world.Env) mc.CaseResult {
					return c12AppRun(env, v.same, v.buyers, seq, false, true)
				}})
			}
		}
	}
	return e
}

func init() {
	CaseReplayers["C12/gauges-module"] = func(r *mc.Run, c string) { r.ReplayCase(c12EnumModule(true), c) }
	CaseReplayers["C12/gauges-app"] = func(r *mc.Run, c string) { r.ReplayCase(c12EnumApp(true), c) }
	Props["C12"] = Prop{Level: "exploration", Run: func(r *mc.Run, tier string) {
		r.Rules = append(r.Rules, "gauge amounts {1,2,3,7,10,999,1000003,1e15} x one/two denominations x durations {1d,30d,365d} x 1 or 3 concurrent gauges (also 2-3 identical ones, and gauges opened later that end together with the first) x every weakly increasing sequence of <=3 (thorough 4) reward-block times from {start,start+1us,D/7,D/3,D/2,D-1us,D,D+1us,2D} through the storage BeginBlocker; plus gauges created by real BuyStorage transactions (one buyer, two buyers, two or three buyers with identical parameters in the same block) and by pay-once file posts (two or three files of different owners in one block, equal or different size) run through the whole application at both seams, with and without a restart of the storage module from its own exported genesis after the purchases, and with a stored file whose only prover lapses (reward blocks that find files but nobody to credit). Non-trivial = a reward block released something")
		r.Assumptions = append(r.Assumptions, "whether the unreleased remainder is paid after the end is unspecified (only 'nothing is released outside the interval' is enforced)", "tolerance one base unit per denomination")
		r.AddEnum(c12EnumModule(tier == "thorough"), workers(), time.Time{})
		r.AddEnum(c12EnumApp(tier == "thorough"), workers(), time.Time{})
	}}
}
