package scen

import (
	"bytes"
	"fmt"
	"strings"
	"time"

	sdk "github.com/cosmos/cosmos-sdk/types"

	storagetypes "github.com/jackalLabs/canine-chain/v4/x/storage/types"
	storageutils "github.com/jackalLabs/canine-chain/v4/x/storage/utils"

	"verif/harness/mc"
	"verif/harness/world"
)

// C02 — honest provers can always prove and are never dropped or burned.

func c02Config() world.Config {
	return world.Config{
		Accounts: []string{"U", "H", "H2", "L1", "L2"},
		Storage:  func(p *storagetypes.Params) { p.CollateralPrice = 1000; p.CheckWindow = 1000 },
	}
}

func c02Setup(env world.Env) {
	w := env.W()
	mustOK(env.Deliver(storagetypes.NewMsgInitProvider(w.A("H").Bech, "https://honest.provider.com", 1_000_000_000, "kb")), "InitProvider")
	mustOK(env.Deliver(storagetypes.NewMsgInitProvider(w.A("H2").Bech, "https://second.holder.net", 1_000_000_000, "kb")), "InitProvider")
	u := w.A("U").Bech
	mustOK(env.Deliver(storagetypes.NewMsgBuyStorage(u, u, 720, 1_000_000_000, "ujkl")), "BuyStorage")
}

func setStorageParams(env world.Env, f func(p *storagetypes.Params)) {
	env.Mutate(func(ctx sdk.Context) {
		k := env.W().App.StorageKeeper
		ps := k.GetParams(ctx)
		f(&ps)
		k.SetParams(ctx, ps)
	})
}

// (1) challenge / proof agreement
func c02ChallengeCase(size int, chunk int64) mc.Case { return c02ChallengeCasePT(size, chunk, 0) }

// pt: the (unvalidated, client-supplied) proof type the file is posted with
func c02ChallengeCasePT(size int, chunk int64, pt int64) mc.Case {
	c := mc.Case{Desc: fmt.Sprintf("challenge|size=%d|chunk=%d", size, chunk)}
	if pt != 0 {
		c.Desc += fmt.Sprintf("|proofType=%d", pt)
	}
	data := seqBytes(size, byte(size*31+int(chunk)))
	f := mkFile(data, chunk)
	c.Prep = func(env world.Env) {
		w := env.W()
		setStorageParams(env, func(p *storagetypes.Params) { p.ChunkSize = chunk })
		// the tree an honest holder builds must be the tree the repository's own tooling builds
		root, _, _, _, err := storageutils.BuildTree(bytes.NewReader(data), chunk)
		if err != nil || !bytes.Equal(root, f.merkle) {
			panic(fmt.Sprintf("harness tree differs from utils.BuildTree for size %d chunk %d (%v)", size, chunk, err))
		}
		u := w.A("U").Bech
		mustOK(env.Deliver(storagetypes.NewMsgPostFile(u, f.merkle, int64(size), 0, pt, 1, "{}")), "PostFile")
	}
	for g := 0; g < 64; g++ {
		c.Subs = append(c.Subs, fmt.Sprintf("gas=%d", g))
	}
	c.Sub = func(env world.Env, sub string) mc.CaseResult {
		w := env.W()
		var g uint64
		fmt.Sscanf(sub, "gas=%d", &g)
		cr := mc.CaseResult{Class: "proved", Nontrivial: len(f.chunks) > 1}
		u, h := w.A("U").Bech, w.A("H").Bech
		start := env.Ctx().BlockHeight()
		pieces := int64(len(f.chunks))
		challenge := int64(0)
		for round := 0; round < 3; round++ {
			env.SetBlockGas(g + uint64(round)*64)
			item, hl := f.proofFor(int(challenge))
			ok, e := postProofOK(w, env.Deliver(storagetypes.NewMsgPostProof(h, f.merkle, u, start, item, hl, challenge)))
			if !ok {
				cr.Viols = append(cr.Viols, viol("honest-proof-accepted", "rejected", "size %d chunk size %d: honest proof for challenged chunk %d rejected: %s", len(f.data), f.chunk, challenge, e))
				return cr
			}
			pr, found := w.App.StorageKeeper.GetProof(env.Ctx(), h, f.merkle, u, start)
			if !found {
				cr.Viols = append(cr.Viols, viol("honest-proof-accepted", "no-record", "no proof record after an accepted proof"))
				return cr
			}
			challenge = pr.ChunkToProve
			if challenge < 0 || challenge >= pieces {
				cr.Viols = append(cr.Viols, viol("challenge-designates-an-existing-chunk", "out-of-range", "size %d chunk size %d (%d chunks): challenged with chunk %d (seed gas+height=%d)", len(f.data), f.chunk, pieces, challenge, int64(g)+env.Ctx().BlockHeight()))
				return cr
			}
		}
		return cr
	}
	return c
}

// (2) window arithmetic: one proof per window at every placement, whole-application blocks
var c02WinFile = mkFile(seqBytes(12, 21), 4)

// repost (only with j == s): after the prover joined, the owner posts the same file again in the same block (same key),
// which replaces the file; the honest prover then simply joins again at its next proving height.
func c02WindowCase(I, W, s, j int64, windows int, repost bool) mc.Case {
	c := mc.Case{Desc: fmt.Sprintf("window|I=%d|W=%d|start=%d|join=%d", I, W, s, j)}
	if repost {
		c.Desc += "|repost"
	}
	f := c02WinFile
	c.Prep = func(env world.Env) {
		w := env.W()
		setStorageParams(env, func(p *storagetypes.Params) { p.ChunkSize, p.ProofWindow, p.CheckWindow = 4, I, W })
		for env.Ctx().BlockHeight() < s {
			if bp := env.NextBlock(6 * time.Second); bp != nil {
				panic(bp.Value)
			}
		}
		u, h := w.A("U").Bech, w.A("H").Bech
		mustOK(env.Deliver(storagetypes.NewMsgPostFile(u, f.merkle, int64(len(f.data)), 0, 0, 1, "{}")), "PostFile")
		for env.Ctx().BlockHeight() < j {
			if bp := env.NextBlock(6 * time.Second); bp != nil {
				panic(bp.Value)
			}
		}
		item, hl := f.proofFor(0)
		if ok, e := postProofOK(w, env.Deliver(storagetypes.NewMsgPostProof(h, f.merkle, u, s, item, hl, 0))); !ok {
			panic("join proof rejected: " + e)
		}
		if repost {
			mustOK(env.Deliver(storagetypes.NewMsgPostFile(u, f.merkle, int64(len(f.data)), 0, 0, 1, "{}")), "PostFile again")
		}
	}
	// every placement vector (o_1..o_k), o_i in [0, I)
	var rec func(cur []string)
	rec = func(cur []string) {
		if len(cur) == windows {
			c.Subs = append(c.Subs, strings.Join(cur, ","))
			return
		}
		for o := int64(0); o < I; o++ {
			rec(append(append([]string{}, cur...), fmt.Sprint(o)))
		}
	}
	rec(nil)
	c.Sub = func(env world.Env, sub string) mc.CaseResult {
		w := env.W()
		cr := mc.CaseResult{Class: "kept", Nontrivial: true}
		u, h := w.A("U").Bech, w.A("H").Bech
		var offs []int64
		for _, x := range strings.Split(sub, ",") {
			var o int64
			fmt.Sscan(x, &o)
			offs = append(offs, o)
		}
		proveAt := map[int64]bool{}
		for k, o := range offs {
			proveAt[s+int64(k+1)*I+o] = true
		}
		last := s + int64(len(offs)+2)*I - 1 // through the window after the last proven one
		burn0, _ := burnOf(w, env.Ctx(), "H")
		joined := true // the prover holds a seat it must keep
		if repost {
			if file, found := getFile(w, env.Ctx(), f.merkle, u, s); !found || !proverListed(file, h) {
				joined = false // the replacement dropped the seat (not a reward block): the prover joins again with its next proof
			}
		}
		for env.Ctx().BlockHeight() < last {
			if bp := env.NextBlock(6 * time.Second); bp != nil {
				cr.Viols = append(cr.Viols, viol("no-panic", "block-panic", "%s", bp.Value))
				return cr
			}
			ht := env.Ctx().BlockHeight()
			file, found := getFile(w, env.Ctx(), f.merkle, u, s)
			if !found && !joined {
				cr.Class = "file-expired-before-rejoin"
				return cr
			}
			if joined && (!found || !proverListed(file, h)) {
				cr.Class = "dropped"
				cr.Viols = append(cr.Viols, viol("honest-prover-never-removed", "removed", "proof window %d, check window %d, file start %d, joined at %d, proofs at offsets %s: removed by the block at height %d (h mod W = %d, (h-start) mod I = %d)", I, W, s, j, sub, ht, ht%W, (ht-s)%I))
				return cr
			}
			if b, _ := burnOf(w, env.Ctx(), "H"); b != burn0 {
				cr.Viols = append(cr.Viols, viol("honest-prover-never-burned", "burned", "burn counter %d -> %d at height %d", burn0, b, ht))
				return cr
			}
			if proveAt[ht] {
				pr, _ := w.App.StorageKeeper.GetProof(env.Ctx(), h, f.merkle, u, s) // no record: the join challenge, chunk 0
				joined = true
				item, hl := f.proofFor(int(pr.ChunkToProve))
				if ok, e := postProofOK(w, env.Deliver(storagetypes.NewMsgPostProof(h, f.merkle, u, s, item, hl, pr.ChunkToProve))); !ok {
					cr.Viols = append(cr.Viols, viol("honest-proof-accepted", "rejected-in-window", "height %d: %s", ht, e))
					return cr
				}
			}
		}
		return cr
	}
	return c
}

// (3) two files whose proof windows are out of phase, each with its own honest prover: what a reward block decides about
// one file's prover must not depend on the other file
var c02WinFile2 = mkFile(seqBytes(12, 77), 4)

func c02TwoFileCase(I, W, s, d int64, swap bool, windows int) mc.Case {
	c := mc.Case{Desc: fmt.Sprintf("twofiles|I=%d|W=%d|start=%d|phase=+%d|swap=%v", I, W, s, d, swap)}
	files := []*sfile{c02WinFile, c02WinFile2}
	if swap {
		files = []*sfile{c02WinFile2, c02WinFile}
	}
	starts := []int64{s, s + d}
	holders := []string{"H", "H2"}
	c.Prep = func(env world.Env) {
		w := env.W()
		setStorageParams(env, func(p *storagetypes.Params) { p.ChunkSize, p.ProofWindow, p.CheckWindow = 4, I, W })
		u := w.A("U").Bech
		for i := range files {
			for env.Ctx().BlockHeight() < starts[i] {
				if bp := env.NextBlock(6 * time.Second); bp != nil {
					panic(bp.Value)
				}
			}
			mustOK(env.Deliver(storagetypes.NewMsgPostFile(u, files[i].merkle, int64(len(files[i].data)), 0, 0, 1, "{}")), "PostFile")
			item, hl := files[i].proofFor(0)
			if ok, e := postProofOK(w, env.Deliver(storagetypes.NewMsgPostProof(w.A(holders[i]).Bech, files[i].merkle, u, starts[i], item, hl, 0))); !ok {
				panic("join proof rejected: " + e)
			}
		}
	}
	var rec func(cur []string)
	rec = func(cur []string) {
		if len(cur) == windows {
			c.Subs = append(c.Subs, strings.Join(cur, ","))
			return
		}
		for o := int64(0); o < I; o++ {
			rec(append(append([]string{}, cur...), fmt.Sprint(o)))
		}
	}
	rec(nil)
	c.Sub = func(env world.Env, sub string) mc.CaseResult {
		w := env.W()
		cr := mc.CaseResult{Class: "kept", Nontrivial: true}
		u := w.A("U").Bech
		var offs []int64
		for _, x := range strings.Split(sub, ",") {
			var o int64
			fmt.Sscan(x, &o)
			offs = append(offs, o)
		}
		proveAt := []map[int64]bool{{}, {}}
		for i := range files {
			for k, o := range offs {
				proveAt[i][starts[i]+int64(k+1)*I+o] = true
			}
		}
		last := starts[1] + int64(len(offs)+2)*I - 1
		burn0 := []int64{0, 0}
		for i, hname := range holders {
			burn0[i], _ = burnOf(w, env.Ctx(), hname)
		}
		for env.Ctx().BlockHeight() < last {
			if bp := env.NextBlock(6 * time.Second); bp != nil {
				cr.Viols = append(cr.Viols, viol("no-panic", "block-panic", "%s", bp.Value))
				return cr
			}
			ht := env.Ctx().BlockHeight()
			for i, f := range files {
				h := w.A(holders[i]).Bech
				if ht > starts[i]+int64(len(offs)+2)*I-1 {
					continue // past the windows this prover was scheduled for
				}
				file, found := getFile(w, env.Ctx(), f.merkle, u, starts[i])
				if !found || !proverListed(file, h) {
					cr.Class = "dropped"
					cr.Viols = append(cr.Viols, viol("honest-prover-never-removed", "removed two-files", "two files (starts %d and %d, proof window %d, check window %d), proofs at offsets %s: the prover of file %d was removed by the block at height %d", starts[0], starts[1], I, W, sub, i, ht))
					return cr
				}
				if b, _ := burnOf(w, env.Ctx(), holders[i]); b != burn0[i] {
					cr.Viols = append(cr.Viols, viol("honest-prover-never-burned", "burned two-files", "prover of file %d: burn counter %d -> %d at height %d", i, burn0[i], b, ht))
					return cr
				}
				if proveAt[i][ht] {
					pr, _ := w.App.StorageKeeper.GetProof(env.Ctx(), h, f.merkle, u, starts[i])
					item, hl := f.proofFor(int(pr.ChunkToProve))
					if ok, e := postProofOK(w, env.Deliver(storagetypes.NewMsgPostProof(h, f.merkle, u, starts[i], item, hl, pr.ChunkToProve))); !ok {
						cr.Viols = append(cr.Viols, viol("honest-proof-accepted", "rejected-in-window two-files", "file %d, height %d: %s", i, ht, e))
						return cr
					}
				}
			}
		}
		return cr
	}
	return c
}

// (5) the honest prover shares a file with two provers that stop proving, at every position in the prover list
func c02CoProverCase(I, W, s int64, pos int) mc.Case {
	order := []string{"L1", "L2"}
	order = append(order[:pos], append([]string{"H"}, order[pos:]...)...)
	c := mc.Case{Desc: fmt.Sprintf("coprovers|I=%d|W=%d|start=%d|list=%s", I, W, s, strings.Join(order, ","))}
	f := c02WinFile
	c.Prep = func(env world.Env) {
		w := env.W()
		setStorageParams(env, func(p *storagetypes.Params) { p.ChunkSize, p.ProofWindow, p.CheckWindow = 4, I, W })
		for env.Ctx().BlockHeight() < s {
			if bp := env.NextBlock(6 * time.Second); bp != nil {
				panic(bp.Value)
			}
		}
		u := w.A("U").Bech
		mustOK(env.Deliver(storagetypes.NewMsgPostFile(u, f.merkle, int64(len(f.data)), 0, 0, 3, "{}")), "PostFile")
		for _, x := range order {
			item, hl := f.proofFor(0)
			if ok, e := postProofOK(w, env.Deliver(storagetypes.NewMsgPostProof(w.A(x).Bech, f.merkle, u, s, item, hl, 0))); !ok {
				panic("join proof rejected: " + e)
			}
		}
	}
	for o := int64(0); o < I; o++ {
		c.Subs = append(c.Subs, fmt.Sprint(o))
	}
	c.Sub = func(env world.Env, sub string) mc.CaseResult {
		w := env.W()
		cr := mc.CaseResult{Class: "kept", Nontrivial: true}
		u, h := w.A("U").Bech, w.A("H").Bech
		var o int64
		fmt.Sscan(sub, &o)
		burn0, _ := burnOf(w, env.Ctx(), "H")
		for env.Ctx().BlockHeight() < s+5*I {
			if bp := env.NextBlock(6 * time.Second); bp != nil {
				cr.Viols = append(cr.Viols, viol("no-panic", "block-panic", "%s", bp.Value))
				return cr
			}
			ht := env.Ctx().BlockHeight()
			file, found := getFile(w, env.Ctx(), f.merkle, u, s)
			if !found || !proverListed(file, h) {
				cr.Viols = append(cr.Viols, viol("honest-prover-never-removed", "removed next-to-lapsing-provers", "prover list %s (only H keeps proving): H was removed by the block at height %d", strings.Join(order, ","), ht))
				return cr
			}
			if b, _ := burnOf(w, env.Ctx(), "H"); b != burn0 {
				cr.Viols = append(cr.Viols, viol("honest-prover-never-burned", "burned next-to-lapsing-provers", "burn counter %d -> %d at height %d", burn0, b, ht))
				return cr
			}
			if ht >= s+I && (ht-s)%I == o {
				pr, ok := w.App.StorageKeeper.GetProof(env.Ctx(), h, f.merkle, u, s)
				if !ok {
					cr.Viols = append(cr.Viols, viol("honest-prover-never-removed", "record-gone next-to-lapsing-provers", "height %d: the proof record of H is gone", ht))
					return cr
				}
				item, hl := f.proofFor(int(pr.ChunkToProve))
				if ok, e := postProofOK(w, env.Deliver(storagetypes.NewMsgPostProof(h, f.merkle, u, s, item, hl, pr.ChunkToProve))); !ok {
					cr.Viols = append(cr.Viols, viol("honest-proof-accepted", "rejected-in-window next-to-lapsing-provers", "height %d: %s", ht, e))
					return cr
				}
			}
		}
		return cr
	}
	return c
}

// (4) the honest prover also owns a file of its own, whose prover stops proving: what happens to that prover must not
// touch the honest one
func c02OwnerLapseCase(I, W, s int64) mc.Case {
	c := mc.Case{Desc: fmt.Sprintf("ownerlapse|I=%d|W=%d|start=%d", I, W, s)}
	fA, fB := c02WinFile, c02WinFile2
	c.Prep = func(env world.Env) {
		w := env.W()
		setStorageParams(env, func(p *storagetypes.Params) { p.ChunkSize, p.ProofWindow, p.CheckWindow = 4, I, W })
		for env.Ctx().BlockHeight() < s {
			if bp := env.NextBlock(6 * time.Second); bp != nil {
				panic(bp.Value)
			}
		}
		u, h, h2 := w.A("U").Bech, w.A("H").Bech, w.A("H2").Bech
		mustOK(env.Deliver(storagetypes.NewMsgPostFile(u, fA.merkle, int64(len(fA.data)), 0, 0, 1, "{}")), "PostFile A")
		pb := storagetypes.NewMsgPostFile(h, fB.merkle, int64(len(fB.data)), 0, 0, 1, "{}")
		pb.Expires = s + 200_000 // paid up front: the provider needs no plan to own a file
		mustOK(env.Deliver(pb), "PostFile B")
		for _, x := range []struct {
			prover, owner string
			f             *sfile
		}{{h, u, fA}, {h2, h, fB}} {
			item, hl := x.f.proofFor(0)
			if ok, e := postProofOK(w, env.Deliver(storagetypes.NewMsgPostProof(x.prover, x.f.merkle, x.owner, s, item, hl, 0))); !ok {
				panic("join proof rejected: " + e)
			}
		}
	}
	for o := int64(0); o < I; o++ {
		c.Subs = append(c.Subs, fmt.Sprint(o))
	}
	c.Sub = func(env world.Env, sub string) mc.CaseResult {
		w := env.W()
		cr := mc.CaseResult{Class: "kept", Nontrivial: true}
		u, h := w.A("U").Bech, w.A("H").Bech
		var o int64
		fmt.Sscan(sub, &o)
		burn0, _ := burnOf(w, env.Ctx(), "H")
		last := s + 5*I
		for env.Ctx().BlockHeight() < last {
			if bp := env.NextBlock(6 * time.Second); bp != nil {
				cr.Viols = append(cr.Viols, viol("no-panic", "block-panic", "%s", bp.Value))
				return cr
			}
			ht := env.Ctx().BlockHeight()
			file, found := getFile(w, env.Ctx(), fA.merkle, u, s)
			if !found || !proverListed(file, h) {
				cr.Viols = append(cr.Viols, viol("honest-prover-never-removed", "removed owner-of-a-lapsing-file", "height %d: the honest prover was removed", ht))
				return cr
			}
			if b, _ := burnOf(w, env.Ctx(), "H"); b != burn0 {
				cr.Viols = append(cr.Viols, viol("honest-prover-never-burned", "burned owner-of-a-lapsing-file", "the honest prover H (which also owns a file whose prover stopped proving) had its burn counter raised %d -> %d at height %d", burn0, b, ht))
				return cr
			}
			if ht >= s+I && (ht-s)%I == o { // one proof in every window of its file
				pr, _ := w.App.StorageKeeper.GetProof(env.Ctx(), h, fA.merkle, u, s)
				item, hl := fA.proofFor(int(pr.ChunkToProve))
				if ok, e := postProofOK(w, env.Deliver(storagetypes.NewMsgPostProof(h, fA.merkle, u, s, item, hl, pr.ChunkToProve))); !ok {
					cr.Viols = append(cr.Viols, viol("honest-proof-accepted", "rejected-in-window owner-of-a-lapsing-file", "height %d: %s", ht, e))
					return cr
				}
			}
		}
		return cr
	}
	return c
}

func c02Enum(thorough bool) mc.Enum {
	e := mc.Enum{Prop: "C02", Name: "C02/honest-prover", Cfg: c02Config(), Setup: c02Setup, ConfirmB: true, ConfB: 40}
	for _, chunk := range []int64{1, 2, 3, 4, 5, 8} {
		for size := 1; size <= int(4*chunk+1); size++ {
			e.Cases = append(e.Cases, c02ChallengeCase(size, chunk))
		}
	}
	e.Cases = append(e.Cases, c02ChallengeCase(40, 1), c02ChallengeCase(130, 1))                                          // challenged indices with two and three digits
	e.Cases = append(e.Cases, c02DeepCase())                                                                              // a proof 23 hashes deep
	e.Cases = append(e.Cases, c02ChallengeCase(5000, 2048), c02ChallengeCase(2100, 1025), c02ChallengeCase(30000, 10240)) // chunk sizes above the default of 1024
	e.Cases = append(e.Cases, c02ChallengeCasePT(9, 4, 1), c02ChallengeCasePT(12, 3, 7), c02ChallengeCasePT(5, 1, -1))    // files posted with other proof types
	Is := []int64{2, 3, 4}
	windows := 3
	if thorough {
		Is = []int64{2, 3, 4, 5}
		windows = 4
		e.ConfB = 300
	}
	for _, I := range Is {
		for _, W := range []int64{2, 3, 4, 5, 7} {
			for s := int64(2); s < 2+W; s++ {
				for j := s; j < s+I; j++ {
					e.Cases = append(e.Cases, c02WindowCase(I, W, s, j, windows, false))
					if j == s {
						e.Cases = append(e.Cases, c02WindowCase(I, W, s, j, windows, true))
					}
				}
			}
		}
	}
	for _, I := range []int64{2, 3} {
		for _, W := range []int64{2, 3, 5} {
			for s := int64(2); s < 2+W; s++ {
				e.Cases = append(e.Cases, c02OwnerLapseCase(I, W, s))
				for pos := 0; pos <= 2; pos++ {
					e.Cases = append(e.Cases, c02CoProverCase(I, W, s, pos))
				}
				for d := int64(1); d < I; d++ {
					for _, swap := range []bool{false, true} {
						e.Cases = append(e.Cases, c02TwoFileCase(I, W, s, d, swap, windows))
					}
				}
			}
		}
	}
	return e
}

func init() {
	CaseReplayers["C02/honest-prover"] = func(r *mc.Run, c string) { r.ReplayCase(c02Enum(true), c) }
	Props["C02"] = Prop{Level: "exploration", Run: func(r *mc.Run, tier string) {
		r.Rules = append(r.Rules, "(1) every file size 1..4c+1 for chunk size c in {1,2,3,4,5,8} (and files of 5000, 2100 and 30000 bytes with chunk sizes 2048, 1025 and 10240, above the default) (and files of 5000, 2100 and 30000 bytes with chunk sizes 2048, 1025 and 10240, above the default) (tree cross-checked with utils.BuildTree), and a file of 2^22+1 one-byte chunks whose honest proof is 23 hashes deep (tree built level by level, cross-checked with the library verifier), x 64 consecutive challenge seeds (block gas) x 3 prove/re-challenge rounds on the real PostFile/PostProof; (2) proof window I in {2,3} (thorough {2,3,4,5}) x check window W in {2,3,4,5,7} x every file start phase x every join height in the first window x every placement vector of one proof per window over 3 (thorough 4) windows, one block at a time through the whole application's BeginBlocker/EndBlocker; (3) two files with out-of-phase proof windows (every phase difference, both walk orders), each with its own honest prover on the same schedules; (4) the honest prover also owns a file whose prover stops proving; (5) the honest prover shares a file with two provers that stop proving, at every list position; one evaluation = one (configuration, seed or placement vector) execution")
		r.Assumptions = append(r.Assumptions, "behaviour of the window predicates depends only on (h-start) mod I and h mod W, so one period of start phases covers every phase relation", "SHA-256/SHA3 collision freedom")
		dl := time.Now().Add(70 * time.Second)
		if tier == "thorough" {
			dl = time.Now().Add(25 * time.Minute)
		}
		r.AddEnum(c02Enum(tier == "thorough"), workers(), dl)
	}}
}
