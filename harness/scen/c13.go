package scen

import (
	"fmt"
	tmproto "github.com/tendermint/tendermint/proto/tendermint/types"
	"math"
	"runtime/debug"
	"strings"
	"time"

	sdk "github.com/cosmos/cosmos-sdk/types"
	authtypes "github.com/cosmos/cosmos-sdk/x/auth/types"

	"github.com/jackalLabs/canine-chain/v4/x/jklmint"
	mintkeeper "github.com/jackalLabs/canine-chain/v4/x/jklmint/keeper"
	minttypes "github.com/jackalLabs/canine-chain/v4/x/jklmint/types"

	"verif/harness/mc"
	"verif/harness/world"
)

// C13 — block emission is non-increasing, non-negative and fully distributed.
// Exhaustive enumeration of parameter sets x seeded previous emission, 6 consecutive blocks each, through the real
// jklmint.BeginBlocker on the real bank keeper (module seam), plus whole-app conformance blocks at both seams.

func c13Config() world.Config {
	return world.Config{
		Accounts: []string{"A", "stipend"},
		Mint:     func(p *minttypes.Params) { p.StorageStipendAddress = world.MakeAcct("stipend").Bech },
	}
}

var c13Ratios = []int64{0, 8, 12, 33, 34, 50, 80, 100}

// start > 0: the run begins at that height (so that the heights it passes through change their number of digits).
func c13Run(env world.Env, tpb, decrease int64, rs [3]int64, prev int64, blocks int, start int64) mc.CaseResult {
	w := env.W()
	k := w.App.MintKeeper
	cr := mc.CaseResult{Class: "ok"}
	ctx := env.Ctx()
	if start > 0 {
		ctx = ctx.WithBlockHeight(start)
	}
	params := k.GetParams(ctx)
	params.TokensPerBlock, params.MintDecrease = tpb, decrease
	params.StakerRatio, params.DevGrantsRatio, params.StorageProviderRatio = rs[0], rs[1], rs[2]
	if err := params.Validate(); err != nil {
		panic("harness: parameter set rejected by the module's own validation: " + err.Error())
	}
	stipendIsDev := start == -1 // governance points the storage stipend at the developer-grants account
	if stipendIsDev {
		start = 0
		da, _ := mintkeeper.GetDevGrantsAccount()
		params.StorageStipendAddress = da.String()
	}
	k.SetParams(ctx, params)
	if prev >= 0 {
		k.SetMintedBlock(ctx, minttypes.MintedBlock{Height: ctx.BlockHeight(), Minted: prev, Denom: "ujkl"})
	}
	feeColl := authtypes.NewModuleAddress(authtypes.FeeCollectorName).String()
	dev, _ := mintkeeper.GetDevGrantsAccount()
	stip := w.A("stipend").Bech
	mintMod := authtypes.NewModuleAddress(minttypes.ModuleName).String()
	labels := map[string]string{feeColl: "fee-collector", dev.String(): "dev-grants", stip: "stipend", mintMod: "mint-module"}
	last := prev
	if prev < 0 {
		last = -1
	}
	var vs []mc.Viol
	for b := 0; b < blocks; b++ {
		ctx = ctx.WithBlockHeight(ctx.BlockHeight() + 1).WithEventManager(sdk.NewEventManager())
		before := w.Balances(ctx)
		supBefore := w.App.BankKeeper.GetSupply(ctx, "ujkl").Amount
		var pan interface{}
		var stack string
		func() {
			defer func() {
				if r := recover(); r != nil {
					pan, stack = r, string(debug.Stack())
				}
			}()
			jklmint.BeginBlocker(ctx, k)
		}()
		if pan != nil {
			_ = stack
			what := fmt.Sprint(pan)
			sig := "begin-block-panics"
			if strings.Contains(what, "negative coin amount") {
				sig = "negative-emission-panics"
			}
			vs = append(vs, viol("emission-never-negative", sig, "tokens/block %d, decrease %d, previous emission %d, block %d: BeginBlocker panicked: %s", tpb, decrease, last, b, what))
			cr.Class = "panic"
			break
		}
		emission := w.App.BankKeeper.GetSupply(ctx, "ujkl").Amount.Sub(supBefore)
		d := world.BalDiff(before, w.Balances(ctx))
		if emission.IsNegative() {
			vs = append(vs, viol("emission-never-negative", "negative", "emission %s", emission))
		}
		if last >= 0 && emission.GT(sdk.NewInt(last)) {
			vs = append(vs, viol("emission-non-increasing", "increased", "previous emission %d, this block %s (decrease %d)", last, emission, decrease))
		}
		if rec, ok := k.GetMintedBlock(ctx, ctx.BlockHeight()); !ok || !sdk.NewInt(rec.Minted).Equal(emission) {
			vs = append(vs, viol("supply-grows-by-the-emission", "record", "supply grew by %s, minted-block record found=%v value=%d", emission, ok, rec.Minted))
		}
		e := emission.Int64()
		exp := map[string]int64{feeColl: rs[0] * e / 100, dev.String(): rs[1] * e / 100, stip: rs[2] * e / 100}
		if stipendIsDev { // one account receives both shares
			exp = map[string]int64{feeColl: rs[0] * e / 100, dev.String(): rs[1]*e/100 + rs[2]*e/100}
		}
		sum := int64(0)
		for a, v := range exp {
			sum += v
			if !deltaOf(d, a, "ujkl").Equal(sdk.NewInt(v)) {
				vs = append(vs, viol("split-by-configured-percentages", labels[a], "emission %d ratios %v: %s received %s, expected %d; all changes %s", e, rs, labels[a], deltaOf(d, a, "ujkl"), v, diffString(w, d, labels)))
			}
		}
		if !deltaOf(d, mintMod, "ujkl").Equal(sdk.NewInt(e - sum)) {
			vs = append(vs, viol("mint-module-keeps-only-the-remainder", "remainder", "emission %d distributed %d, mint module changed by %s", e, sum, deltaOf(d, mintMod, "ujkl")))
		}
		if rs[0]+rs[1]+rs[2] == 100 && e-sum >= 3 {
			vs = append(vs, viol("mint-module-keeps-only-the-remainder", "remainder>=3", "remainder %d", e-sum))
		}
		for a := range d {
			if _, ok := exp[a]; !ok && a != mintMod {
				vs = append(vs, viol("no-other-account-credited", "other", "balance changes %s", diffString(w, d, labels)))
			}
		}
		if e > 0 {
			cr.Nontrivial = true
		}
		last = e
	}
	cr.Viols = vs
	return cr
}

func c13Enum(thorough bool) mc.Enum {
	e := mc.Enum{Prop: "C13", Name: "C13/emission", Cfg: c13Config(), ConfirmB: false}
	tpbs := []int64{0, 1, 2, 3, 5, 10, 100, 4_200_000}
	decs := []int64{0, 6, 2_628_000, 5_256_000, 5_256_001, 10_512_000, math.MaxInt64 - 5_255_998, math.MaxInt64}
	prevs := []int64{-1, 0, 1, 2, 3, 10}
	blocks := 6
	if thorough {
		tpbs = append(tpbs, 7, 99, 1_000_000_007)
		decs = append(decs, 1, 5_255_999, 52_560_000)
		prevs = append(prevs, 4, 5, 11, 101)
		blocks = 12
	}
	var triples [][3]int64
	for _, a := range c13Ratios {
		for _, b := range c13Ratios {
			for _, c := range c13Ratios {
				if a+b+c <= 100 {
					triples = append(triples, [3]int64{a, b, c})
				}
			}
		}
	}
	for _, tpb := range tpbs {
		for _, dec := range decs {
			for _, prev := range prevs {
				tpb, dec, prev := tpb, dec, prev
				e.Cases = append(e.Cases, mc.Case{Desc: fmt.Sprintf("tpb=%d|dec=%d|prev=%d|%d ratio triples|%d blocks", tpb, dec, prev, len(triples), blocks), Run: func(env world.Env) mc.CaseResult {
					out := mc.CaseResult{Class: "ok"}
					ea := env.(*world.EnvA)
					type job struct {
						rs    [3]int64
						start int64
					}
					var jobs []job
					for i, rs := range triples {
						jobs = append(jobs, job{rs, 0})
						if i%16 == 0 { // the same run across the heights 9 -> 10 -> 11 and 99 -> 100 -> 101
							jobs = append(jobs, job{rs, 8}, job{rs, 98}, job{rs, 14397}) // ... and the day boundary 14400 (6-second blocks)
							jobs = append(jobs, job{rs, -1})                             // the stipend address is the developer-grants account
						}
					}
					for _, j := range jobs {
						rs := j.rs
						r := c13Run(ea.Fork(), tpb, dec, rs, prev, blocks, j.start)
						out.Count++
						if r.Nontrivial {
							out.NontrivialCount++
						}
						if r.Class == "panic" {
							out.Class = "panic"
						}
						out.Viols = append(out.Viols, r.Viols...)
					}
					return out
				}})
			}
		}
	}
	// every percentage 0..100 in every one of the three positions x every emission 1..N, one block each: the three
	// shares are separate computations, and a rounding slip shows only for particular (percentage, amount) pairs
	maxE := int64(128)
	if thorough {
		maxE = 2500
	}
	for pos := 0; pos < 3; pos++ {
		for r := int64(0); r <= 100; r++ {
			pos, r := pos, r
			rest := 100 - r
			rs := [3]int64{}
			rs[pos], rs[(pos+1)%3], rs[(pos+2)%3] = r, rest/2, rest-rest/2
			e.Cases = append(e.Cases, mc.Case{Desc: fmt.Sprintf("split|ratios=%d/%d/%d|emissions 1..%d", rs[0], rs[1], rs[2], maxE), Run: func(env world.Env) mc.CaseResult {
				out := mc.CaseResult{Class: "ok"}
				ea := env.(*world.EnvA)
				for em := int64(1); em <= maxE; em++ {
					r := c13Run(ea.Fork(), em, 0, rs, em, 1, 0)
					out.Count++
					if r.Nontrivial {
						out.NontrivialCount++
					}
					out.Viols = append(out.Viols, r.Viols...)
				}
				return out
			}})
		}
	}
	return e
}

// c13WholeApp runs default and near-zero parameter sets through the whole application's block processing at the
// ABCI seam and checks what remains observable there: supply grows by the recorded emission, never negative.
func c13WholeApp(r *mc.Run) {
	type ps struct {
		tpb, dec, prev int64
		initial        int64 // > 0: the chain's first block is this height and is the first block observed (no seeded previous emission)
	}
	sets := []ps{{4_200_000, 6, -1, 0}, {3, 6, 2, 0}, {1, 2_628_000, 1, 0}, {10, 5_256_000, 3, 0}, {0, 0, 0, 0},
		{4_200_000, 6, -1, 1}, {4_200_000, 6, -1, 50}, {3, 5_256_000, -1, 7}}
	ok := 0
	for _, s := range sets {
		s := s
		cfg := c13Config()
		base := cfg.Mint
		cfg.Mint = func(p *minttypes.Params) { base(p); p.TokensPerBlock, p.MintDecrease = s.tpb, s.dec }
		if s.initial > 0 {
			cfg.FirstBlockIsInitial, cfg.StartHeight = true, s.initial
		}
		w := world.New(cfg)
		report := func(clause, sig, detail string) {
			r.Report(mc.Record{Property: "C13", Scenario: "C13/whole-app", Kind: "case", Clause: clause, Signature: clause + ":" + sig, Detail: detail, Case: fmt.Sprintf("%+v", s)})
		}
		good := true
		last := sdk.NewInt(-1)
		check := func(ctx sdk.Context, sup sdk.Int) {
			em := w.App.BankKeeper.GetSupply(ctx, "ujkl").Amount.Sub(sup)
			rec, found := w.App.MintKeeper.GetMintedBlock(ctx, ctx.BlockHeight())
			if !found || !sdk.NewInt(rec.Minted).Equal(em) || em.IsNegative() {
				report("supply-grows-by-the-emission", "whole-app", fmt.Sprintf("whole app, %+v, height %d: supply grew by %s, record found=%v minted=%d", s, ctx.BlockHeight(), em, found, rec.Minted))
				good = false
			}
			if !last.IsNegative() && em.GT(last) {
				report("emission-non-increasing", "whole-app", fmt.Sprintf("whole app, %+v, height %d: emission %s after %s", s, ctx.BlockHeight(), em, last))
				good = false
			}
			last = em
		}
		var env *world.EnvB
		if s.initial > 0 {
			genesisSupply := w.App.BankKeeper.GetSupply(w.App.NewContext(false, tmproto.Header{}), "ujkl").Amount
			env = w.NewEnvB() // begins the chain's first block
			if env.Ctx().BlockHeight() != s.initial {
				panic("harness: the first block is not the initial height")
			}
			check(env.Ctx(), genesisSupply)
		} else {
			env = w.NewEnvB()
		}
		if s.prev >= 0 {
			env.Mutate(func(ctx sdk.Context) {
				w.App.MintKeeper.SetMintedBlock(ctx, minttypes.MintedBlock{Height: ctx.BlockHeight(), Minted: s.prev, Denom: "ujkl"})
			})
			last = sdk.NewInt(s.prev)
		}
		for b := 0; b < 4 && good; b++ {
			sup := w.App.BankKeeper.GetSupply(env.Ctx(), "ujkl").Amount
			if bp := env.NextBlock(6 * time.Second); bp != nil {
				what := "negative-emission-panics"
				if !strings.Contains(bp.Value, "negative coin amount") {
					what = "begin-block-panics"
				}
				report("emission-never-negative", what, fmt.Sprintf("whole app, %+v: %s at height %d: %s", s, bp.Phase, bp.Height, bp.Value))
				good = false
				break
			}
			check(env.Ctx(), sup)
		}
		if good {
			ok++
		}
	}
	r.Traces += ok
	r.Evaluations += len(sets)
	r.Sub = append(r.Sub, map[string]interface{}{"whole_app_seamB_parameter_sets": len(sets), "passed": ok})
}

func init() {
	CaseReplayers["C13/emission"] = func(r *mc.Run, c string) { r.ReplayCase(c13Enum(true), c) }
	CaseReplayers["C13/whole-app"] = func(r *mc.Run, c string) { c13WholeApp(r) }
	Props["C13"] = Prop{Level: "exploration", Run: func(r *mc.Run, tier string) {
		r.Rules = append(r.Rules, "full product TokensPerBlock {0,1,2,3,5,10,100,4.2M} x MintDecrease {0,6,bpy/2,bpy,bpy+1,2bpy,2^63-bpy,2^63-1} x every ratio triple over {0,8,12,33,34,50,80,100} with sum<=100 x seeded previous emission {none,0,1,2,3,10} x 6 consecutive blocks (thorough: more values, 12 blocks), every 16th ratio triple also started at heights 8, 98 and 14397 (the run crosses 9->10->11, 99->100->101 and the day boundary 14400) through the real jklmint.BeginBlocker on the real bank keeper; plus every percentage 0..100 in each of the three positions (the other two sharing the rest) x every emission 1..128 (thorough: 1..2500), one block each; one evaluation = one (parameter set, seed) run; non-trivial = emission > 0 in some block")
		r.Assumptions = append(r.Assumptions, "module seam for the per-account split (in the whole app the distribution module sweeps the fee collector in the same BeginBlock); whole-app blocks at the ABCI seam check supply growth, the record and monotonicity (also on chains whose first block is height 1, 7 or 50, observed from that first block on)", "blocks per year 5,256,000")
		r.AddEnum(c13Enum(tier == "thorough"), workers(), time.Time{})
		c13WholeApp(r)
	}}
}
