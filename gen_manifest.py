#!/usr/bin/env python3
"""Regenerates /verif/MANIFEST.json from the table below (kept in one place so it stays valid)."""
import json

MC = "model_checking"
EX = "exploration"

# id -> (level, text, note, technique, design_ref)
CHECKS = {
 "C01": (MC, "Explicit-state BFS over the real PostProof/attest/reward-block handlers from a posted file: every payload kind (valid for the challenged chunk, other chunk, foreign file, broken, truncated) by 3 accounts and a fourth that also signs in capitals, block-gas choices and block boundaries, every transition checked against a reference of who has validly proven (incl. that a prover without a proof since the start of the previous window loses its seat at a reward block); a two-file variant (rewards stay with each file's own provers) and an enumeration that submits leaf-name alias payloads once the chain's own challenge is aliasable (known finding F19), and an enumeration that offers every other chunk's proof for every challenged index of a 40-chunk file; conformance replay and reproduction through signed ABCI blocks.",
         "Bounds: 3 provers + a 4th account, one 3-chunk file with replication 3 (two-file variant: a second file with replication 1), a 130-chunk file for the aliasing enumeration; depth bound reported in evidence; SHA-256/SHA3 collision freedom.", "explicit-state model checking of the real handlers (BFS, canonical store hash)", "DESIGN.md §4 C01"),
 "C03": (MC, "Bounded-exhaustive construction of the configuration at a reward block through real messages and blocks (every ordering of every subset of 3 provers x every failing subset x sizes x gauges x 1-2 files, sizes near 2^63, the ProofWindow parameter raised after posting, a gauge of a third denomination whose shares round to zero, a third abandoned file dropped at the block under test), oracle on removals, burn counters and per-denomination payouts; violations reproduced through signed ABCI blocks.",
         "Share denominator may be listed or credited bytes; ProofWindow 3 / CheckWindow 2.", "exhaustive enumeration of reward-block configurations on the real code", "DESIGN.md §4 C03"),
 "C08": (MC, "BFS over 91 name-service events per state by 3 accounts on 2 names (one expiring inside the horizon); (names also spelled with capitals and with inner spaces, Init, paid names equal to generated free names, a record labelled like another name and messages on its dotted path, a bid in another denomination, acceptance of one's own bid); every transition checked: a live name changes owner only by its owner's transfer/accept or a purchase through the owner's own listing, with full payment to the previous owner.",
         "3 principals, 2 names, height == Expires unspecified; depth bound in evidence.", "explicit-state model checking of the real handlers", "DESIGN.md §4 C08"),
 "C09": (MC, "BFS over bid/cancel/accept/register/list/buy/transfer with repeated bids in two denominations, mixed-case spellings, a bid above 2^63-1, a bid larger than a name's price with a registrant that cannot pay, acceptance of one's own bid, and transactions of two messages whose second fails; every transition checked for delta(module balance) = delta(sum of open bids) and exact refunds/payouts against an escrow reference model.",
         "3 principals, 2 names, 3 bid values.", "explicit-state model checking of the real handlers", "DESIGN.md §4 C09"),
 "C10": (MC, "BFS from a seeded tree over all file-tree messages by owner/editor/viewer/stranger including crafted separator-containing fields and access ids that differ from a real one only in the case of their hex digits or extend one by two digits, and keys holding JSON metacharacters; the whole Files store after every transition must equal a harness-computed functional reference and unauthorised messages must fail.",
         "4 principals, 4 paths; SHA-256 collision freedom.", "explicit-state model checking against a functional reference model", "DESIGN.md §4 C10"),
 "C13": (EX, "Exhaustive product of mint parameter sets x seeded previous emission x consecutive blocks (also started at heights 8 and 98, where the number of digits of the height changes, and 14397, across the day boundary; also with the stipend paid into the developer-grants account) through the real jklmint BeginBlocker on the real bank keeper; supply growth, monotonicity, non-negativity, per-account split and remainder checked per block; whole-app blocks at the ABCI seam.",
         "Value alphabets as listed in evidence; module seam for the split.", "exhaustive enumeration of parameter sets x block runs", "DESIGN.md §4 C13"),
 "C15": (MC, "Volume enumeration (99/100/101/130 providers: listing count and sum, module restart, every shutdown), a variant in which a registered provider lapses on three files, and BFS over init/shutdown by 3 accounts (one under-funded; one also signing in capitals) x collateral-price changes x a plain and a referred storage purchase x a 32-byte account whose address string extends another's (acting through unsigned, contract-dispatched messages); the reachable space under the alphabet saturates (complete), every transition checked against a reference of recorded collateral; conformance replay at the ABCI seam.",
         "3 registrants, price alphabet {p,2p,p/2}.", "explicit-state model checking to a fixpoint", "DESIGN.md §4 C15"),
 "C16": (EX, "Full product of names (length 1..6/8, both TLDs, case/space variants) x years x registrants, and of genesis-seeded names (long expired, expired a year ago, expiring in 3 blocks, live) x block offsets x owner/other; register-twice sequences with capital-spelled signers; Init at heights whose generated starter name is a paid live name; live names that are listed for sale or carry bids; price from a frozen table, expiry, resolution and the owner's renewal checked; all cases also run through signed ABCI blocks.",
         "Price table frozen in the harness; height == Expires unspecified.", "exhaustive input enumeration on the real handlers", "DESIGN.md §4 C16"),
 "C18": (MC, "BFS over create/delete/block-senders/name-transfer/NextBlock (6 s and 300 ms) and one restart of the module from its own exported genesis, among 3 accounts (also signing in capitals), a 32-byte recipient whose address string extends another's, deletes with crafted and path-stepping sender strings, and a name; after every transition every inbox is read through the gRPC query and compared entry by entry with a reference inbox.",
         "Identity of a notification = (recipient, sender, time); 3 principals.", "explicit-state model checking against a reference model", "DESIGN.md §4 C18"),
 "C20": (EX, "Every segment sequence of length 1..4 (5 thorough) over 14 segments (incl. '.', '..', '%' and two Unicode spellings of one visible name): MerklePath vs an independent fold, trailing-slash neutrality, parent/child derivation, pairwise-distinct addresses; every depth 1..260; 216 folder chains posted through the real handlers.",
         "SHA-256 collision freedom; unspecified boundary cases listed in DESIGN.md.", "exhaustive input enumeration", "DESIGN.md §4 C20"),
}

CHECKS.update({
 "C02": (EX, "Two exhaustive enumerations on the real code: (1) every file size 1..4c+1 for six chunk sizes x 64 consecutive challenge seeds x 3 prove/re-challenge rounds through PostFile/PostProof (tree cross-checked with the repository's BuildTree); (2) proof window x check window x every file start phase x every join height x every placement vector of one proof per window (and, for joins in the posting block, the same with the owner posting the file again in that block); (3) two files with out-of-phase proof windows in both walk orders, each with its own honest prover; (4) the honest prover also owns a file whose prover stops proving, (5) it shares a file with two lapsing provers at every list position, files of 40 and 130 chunks, advanced block by block through the whole application's BeginBlocker; prover must stay listed and unburned.",
         "Windows I<=4 quick / <=5 thorough; 3-4 windows; periodicity argument for start phases.", "exhaustive enumeration of challenge seeds and proof-placement schedules", "DESIGN.md §4 C02"),
 "C04": (EX, "Full product of plan states x price feeds x ratio parameters x sizes x durations x referral kinds x recipient (also spelled in capitals) x payer balance (about 1e5 purchases) plus pay-once posts and same-block duplicates, each on a fresh branch, with a funded collateral escrow standing by; all balances and total supply snapshotted before/after and every clause of the statement checked; representative cases re-run through signed ABCI blocks.",
         "The chain's own price functions on the pre-state are the reference for 'the price the chain computes'.", "exhaustive input enumeration with full-balance-sheet oracle", "DESIGN.md §4 C04"),
 "C05": (MC, "BFS over boundary-valued messages of the storage and oracle modules (incl. tokens sent into a gauge's escrow account by referral or bank transfer) and block boundaries with extreme time steps; after every accepted transaction three further blocks are processed on a fork; the whole application's BeginBlocker/EndBlocker must not panic (differential against the same blocks without messages); plus a bounded-exhaustive enumeration of reward-block configurations (up to 3-4 files, extreme sizes, one or two provers, a capital-spelled prover proving twice; 2-4 identical purchases in one block; a 2^45 replication count); panics are reproduced through real BeginBlock at the ABCI seam.",
         "Value alphabets listed in evidence; one idle genesis validator.", "explicit-state model checking with look-ahead and differential oracle", "DESIGN.md §4 C05"),
 "C06": (MC, "For every history of a bounded history set (all template sequences of a mixed scenario incl. rejected transactions, plus search-tree paths of seven other scenarios), the real ABCI pipeline is executed on a fresh node once per choice vector (<=1 quick / <=2 thorough deviations) of the instrumented nondeterminism seams - every permutation of every map iteration reached, two wall-clock bases on either side of all chain times (time.Now/Since/Until), two RNG seeds, two host time zones, a restart of the process after each committed block, every transaction first simulated on the node, the garbage collector run before every transaction - and the observation logs (AppHash per block, tx code/gas/events/data, block events) must be identical. The instrumentation is regenerated from the current tree on every run (go build -overlay), so a new map range or clock read becomes a choice point automatically.",
         "Sources of nondeterminism = the seamgen inventory over x/, app/, wasmbinding/, types/; SDK/Tendermint/wasmvm internals assumed deterministic; two-process un-instrumented run is a secondary net only.", "stateless exploration of nondeterministic choices (controlled map order / clock / RNG) on the real ABCI pipeline", "DESIGN.md §4 C06"),
 "C07": (MC, "BFS over buy/upgrade (also for another account), plan-paid and pay-once posts (incl. the same key twice in a block, the largest accepted size, a negative expiry, and the same posts made through the wasm binding with negative/overflowing sizes), plus a seeded variant (a pay-once file walked first, a plan-paid file, each with a prover, and a genesis pay-once file past its paid term; up to 7 blocks), deletes by owner and non-owner, a prover joining, one-day blocks (reward blocks drop prover-less files) and a 31-day block (expiry); every transition: delta(SpaceUsed) = delta(footprint of the account's live plan-paid files), bounds, refused posts.",
         "2 accounts, <=4 posts, <=6 blocks per history.", "explicit-state model checking of the real handlers", "DESIGN.md §4 C07"),
 "C11": (MC, "All 45 registered message types (cross-checked with the Msg service descriptors): every assignment of distinct addresses to their string fields gives GetSigners=[creator] and a routable handler; three signed transactions per type through the real ante handler (other field's key, creator+extra, creator); BFS over owner-only messages (and a post of the same content in the same block, and an account whose address string ends in 'jkl' while O holds the name spelled like it) replayed by non-owners with every record of the owner compared byte for byte; wasm binding post in own/foreign name.",
         "Records of O = keys/values containing O's address and the feed it created.", "exhaustive enumeration of message types x field assignments + explicit-state search", "DESIGN.md §4 C11"),
 "C12": (EX, "Gauge amounts x denominations x durations x concurrent gauges x every weakly increasing sequence of reward-block times from a 9-point alphabet through the storage BeginBlocker, and gauges created by real BuyStorage transactions (incl. two and three identical purchases in one block, with and without a restart of the storage module from its own exported genesis; gauges opened later that end together with the first; gauges without ujkl) through the whole application at both seams; cumulative release vs exact integer pro-rata, monotonicity, cap, nothing outside the interval, conservation into the reward pool.",
         "Rounding direction of a fractional microsecond unspecified; remainder after end unspecified.", "exhaustive enumeration of reward-time schedules", "DESIGN.md §4 C12"),
 "C14": (MC, "For six (form size, minimum) settings: BFS over form requests, Attest and Report by eligible, same-domain, proof-less, unregistered and self signers incl. repeats and never-requested forms, at several heights, and, in an extra variant, a second pair of forms about another prover, one restart of the storage module from its own exported genesis (open forms must survive byte-identically) a provider whose only proof can disappear inside the block, and named providers that deregister; reference = set of distinct named signers; ineffective signatures must leave the store byte-identical and forms must name only registered proof holders other than the prover.",
         "7 signers, one file.", "explicit-state model checking against a reference model", "DESIGN.md §4 C14"),
 "C17": (MC, "BFS from two seeded files with provers over post/delete/proof (valid, invalid, signed in capitals)/attest/report/shutdown/reward blocks and one 31-day block; list entries are compared as accounts; the index and prover-list invariant is evaluated in every reached state through raw store iteration and through the gRPC queries.",
         "<=4 posts, <=6 blocks per history.", "explicit-state model checking of a state invariant", "DESIGN.md §4 C17"),
 "C19": (MC, "BFS over one event per record kind of the six modules in every prerequisite-respecting order, and from a state holding one record of every kind over the events that add a second instance; volume cases with 130 records of every kind; every module's parameters are compared too (with parameter-change events); in every reached state each module is exported, JSON round-tripped, validated, imported into a fresh node and compared record kind by record kind, and re-exported; selected histories are committed at the ABCI seam, exported with ExportAppStateAndValidators and imported by InitChain on a fresh node. Five record kinds without a genesis field are listed as known findings; any other loss is a violation.",
         "A record that exists only after the import is a violation unless it is a materialised ActiveProviders entry; violations keyed by (store, record-kind prefix).", "explicit-state model checking with export/import round trip in every state", "DESIGN.md §4 C19"),
})

REASON_PENDING = "check under construction in this round (DESIGN.md §7 build order); will be claimed once its scenario is committed"

props = [json.loads(l) for l in open('/verif/properties.jsonl')]
m = {
 "version": 1,
 "setup_cmd": "./check build",
 "hooks": {
  "guard": "verif",
  "enable": "no source hooks are needed: the explorer imports /repo as a Go module (replace => /repo, regenerated go.mod) and uses exported keepers, the message router and BeginBlocker/EndBlocker; C06 instruments map ranges/clock/RNG through a generated go build -overlay that leaves /repo untouched",
  "baseline_off_cmd": "cd /repo && GOFLAGS=-mod=mod go test -vet=off -count=1 -timeout 25m ./...",
  "source_commits": [],
  "add_only": True,
 },
 "engines": [
  {"name": "mc-explorer", "path": "harness/mc/explorer.go", "serves_properties": sorted(k for k, v in CHECKS.items() if v[0] == MC),
   "kind_free_text": "explicit-state breadth-first search over event histories; transitions run the real handlers on CacheContext branches of a real JackalApp; canonical key = hash of full store contents + header + reference model"},
  {"name": "abci-replayer", "path": "harness/world/env.go", "serves_properties": sorted(CHECKS),
   "kind_free_text": "replays search paths / enumerated cases through signed transactions and real BeginBlock/DeliverTx/EndBlock/Commit on a fresh node: conformance check and reproduction gate for every violation"},
  {"name": "enumerator", "path": "harness/mc/enum.go", "serves_properties": sorted(k for k, v in CHECKS.items() if v[0] == EX) + ["C03"],
   "kind_free_text": "exhaustive enumeration of finite input/schedule/configuration products on worker-local nodes"},
 ],
 "checks": [],
 "not_applicable": [],
 "notes": "Exit codes: 0 held (KNOWN-FINDING lines allowed), 1 VIOLATION, 2 harness error. known_findings.json lists fixed/known findings.",
}
for p in props:
    i = p["id"]
    if i in CHECKS:
        lvl, text, note, tech, ref = CHECKS[i]
        m["checks"].append({
            "property_id": i, "quick_cmd": "./check %s quick" % i, "thorough_cmd": "./check %s thorough" % i,
            "evidence_file": "/verif/evidence/%s.json" % i, "replay_cmd_template": "./check replay {path}",
            "engine": "mc-explorer" if lvl == MC else "enumerator",
            "level_claimed": {"category": lvl, "text": text, "design_ref": ref}, "level_note": note, "technique": tech})
    else:
        m["not_applicable"].append({"property_id": i, "reason": REASON_PENDING})
json.dump(m, open('/verif/MANIFEST.json', 'w'), indent=1)
print("checks:", len(m["checks"]), "pending:", len(m["not_applicable"]))
