package scen

import (
	"encoding/json"
	"fmt"
	"runtime"
	"sync"

	"github.com/wealdtech/go-merkletree/v2"
	"golang.org/x/crypto/sha3"

	storagetypes "github.com/jackalLabs/canine-chain/v4/x/storage/types"

	"verif/harness/mc"
	"verif/harness/world"
)

// deepFile is a file of n one-byte chunks held as the levels of its Merkle tree (the construction of the
// go-merkletree library: leaves padded with zero hashes up to a power of two, SHA3-512 inner nodes), built in parallel
// and without the library's per-node allocations, so that trees of several million leaves fit a quick run.
type deepFile struct {
	n      int
	levels [][]byte   // levels[k]: 64 bytes per real node of level k (level 0 = hashed leaves)
	pad    [][64]byte // pad[k]: the value of a node of level k whose subtree holds padding only
	root   []byte
}

func (d *deepFile) chunk(i int) []byte { return []byte{byte(i*131 + 7)} }

func parallel(n int, f func(lo, hi int)) {
	w := runtime.NumCPU()
	var wg sync.WaitGroup
	step := (n + w - 1) / w
	for lo := 0; lo < n; lo += step {
		hi := lo + step
		if hi > n {
			hi = n
		}
		wg.Add(1)
		go func(lo, hi int) { defer wg.Done(); f(lo, hi) }(lo, hi)
	}
	wg.Wait()
}

func buildDeepFile(n int) *deepFile {
	d := &deepFile{n: n}
	depth := 0
	for 1<<depth < n {
		depth++
	}
	d.pad = make([][64]byte, depth+1) // pad[0] = 64 zero bytes
	for k := 1; k <= depth; k++ {
		d.pad[k] = sha3.Sum512(append(append([]byte{}, d.pad[k-1][:]...), d.pad[k-1][:]...))
	}
	cur := make([]byte, 64*n)
	parallel(n, func(lo, hi int) {
		for i := lo; i < hi; i++ {
			h := sha3.Sum512(leafOf(i, d.chunk(i)))
			copy(cur[64*i:], h[:])
		}
	})
	d.levels = append(d.levels, cur)
	m := n
	for k := 0; k < depth; k++ {
		pm := (m + 1) / 2
		next := make([]byte, 64*pm)
		prev, padK := cur, d.pad[k]
		mm := m
		parallel(pm, func(lo, hi int) {
			buf := make([]byte, 128)
			for j := lo; j < hi; j++ {
				copy(buf[:64], prev[128*j:128*j+64])
				if 2*j+1 < mm {
					copy(buf[64:], prev[128*j+64:128*j+128])
				} else {
					copy(buf[64:], padK[:])
				}
				h := sha3.Sum512(buf)
				copy(next[64*j:], h[:])
			}
		})
		d.levels = append(d.levels, next)
		cur, m = next, pm
	}
	d.root = append([]byte{}, cur[:64]...)
	return d
}

// proofFor: the chunk and the JSON hash list an honest holder derives for chunk i.
func (d *deepFile) proofFor(i int) ([]byte, []byte) {
	depth := len(d.levels) - 1
	p := merkletree.Proof{Index: uint64(i)}
	idx := i
	for k := 0; k < depth; k++ {
		sib := idx ^ 1
		if 64*sib < len(d.levels[k]) {
			p.Hashes = append(p.Hashes, d.levels[k][64*sib:64*sib+64])
		} else {
			p.Hashes = append(p.Hashes, d.pad[k][:])
		}
		idx >>= 1
	}
	bz, err := json.Marshal(&p)
	if err != nil {
		panic(err)
	}
	return d.chunk(i), bz
}

var (
	c02DeepOnce sync.Once
	c02Deep     *deepFile
)

// c02DeepCase: a file of 2^22+1 one-byte chunks - the honest proof is 23 hashes deep. The holder joins with the proof
// of chunk 0 and answers the next two challenges.
func c02DeepCase() mc.Case {
	const n = 1<<22 + 1
	return mc.Case{Desc: fmt.Sprintf("deep|chunks=%d|chunk=1", n), Run: func(env world.Env) mc.CaseResult {
		c02DeepOnce.Do(func() {
			c02Deep = buildDeepFile(n)
			// the tree must be the tree the library builds: its own verifier has to accept proofs at both ends and in the middle
			for _, i := range []int{0, 1, n / 2, n - 2, n - 1} {
				item, hl := c02Deep.proofFor(i)
				if !libVerifies(c02Deep.root, int64(i), item, hl) {
					panic(fmt.Sprintf("harness: deep tree proof for chunk %d does not verify with the library", i))
				}
			}
			small := buildDeepFile(5) // and for a small size the root must equal the library's own
			var data []byte
			for i := 0; i < 5; i++ {
				data = append(data, small.chunk(i)...)
			}
			if string(mkFile(data, 1).merkle) != string(small.root) {
				panic("harness: deep tree construction differs from the library's for 5 chunks")
			}
		})
		d := c02Deep
		w := env.W()
		cr := mc.CaseResult{Class: "proved", Nontrivial: true}
		setStorageParams(env, func(p *storagetypes.Params) { p.ChunkSize = 1 })
		u, h := w.A("U").Bech, w.A("H").Bech
		start := env.Ctx().BlockHeight()
		mustOK(env.Deliver(storagetypes.NewMsgPostFile(u, d.root, int64(n), 0, 0, 1, "{}")), "PostFile")
		challenge := int64(0)
		for round := 0; round < 3; round++ {
			env.SetBlockGas(uint64(round) * 977)
			item, hl := d.proofFor(int(challenge))
			ok, e := postProofOK(w, env.Deliver(storagetypes.NewMsgPostProof(h, d.root, u, start, item, hl, challenge)))
			if !ok {
				cr.Viols = append(cr.Viols, viol("honest-proof-accepted", "rejected", "file of %d one-byte chunks (proof of %d hashes, %d bytes of JSON): honest proof for challenged chunk %d rejected: %s", n, len(d.levels)-1, len(hl), challenge, e))
				return cr
			}
			pr, found := w.App.StorageKeeper.GetProof(env.Ctx(), h, d.root, u, start)
			if !found {
				cr.Viols = append(cr.Viols, viol("honest-proof-accepted", "no-record", "no proof record after an accepted proof"))
				return cr
			}
			challenge = pr.ChunkToProve
			if challenge < 0 || challenge >= int64(n) {
				cr.Viols = append(cr.Viols, viol("challenge-designates-an-existing-chunk", "out-of-range", "%d chunks: challenged with chunk %d", n, challenge))
				return cr
			}
		}
		return cr
	}}
}
