package scen

import (
	"fmt"
	"math"
	"regexp"
	"strconv"
	"strings"
	"time"

	sdk "github.com/cosmos/cosmos-sdk/types"
	banktypes "github.com/cosmos/cosmos-sdk/x/bank/types"

	oracletypes "github.com/jackalLabs/canine-chain/v4/x/oracle/types"
	storagetypes "github.com/jackalLabs/canine-chain/v4/x/storage/types"

	"verif/harness/mc"
	"verif/harness/world"
)

// C05 — no sequence of valid transactions can make block processing panic.
type C05 struct {
	Boundary bool // restricted menu: boundary values only (searched deeper)
}

var c05Provers = []string{"P1", "P2", "P3"}

type c05Model struct {
	Blocks []string // dT code of every NextBlock so far (for the differential re-run without messages)
	Files  []string // "payer|start" of posted files
	Posts  int
}

func (m c05Model) Key() []byte { return jkey(m) }

func (s C05) ID() string { return "C05" }
func (s C05) Name() string {
	if s.Boundary {
		return "C05/no-panic-boundary"
	}
	return "C05/no-panic"
}
func (s C05) Config() world.Config {
	return world.Config{
		Accounts: []string{"U", "P1", "P2", "P3", "feeder"},
		Storage: func(p *storagetypes.Params) {
			p.ChunkSize, p.ProofWindow, p.CheckWindow = 4, 3, 2
			p.AttestFormSize, p.AttestMinToPass = 1, 1
			p.CollateralPrice = 1000
		},
	}
}
func (s C05) Stores() []string { return []string{"storage", "bank", "oracle"} }
func (s C05) Init(env world.Env) mc.Model {
	w := env.W()
	for i, p := range c05Provers {
		mustOK(env.Deliver(storagetypes.NewMsgInitProvider(w.A(p).Bech, fmt.Sprintf("https://node.prov%d.com", i+1), 1_000_000_000, "kb")), "InitProvider")
	}
	u := w.A("U").Bech
	mustOK(env.Deliver(storagetypes.NewMsgBuyStorage(u, u, 30, 1000_000_000_000, "ujkl")), "BuyStorage")
	return c05Model{}
}

var c05Sizes = map[string]int64{"min": math.MinInt64, "-1e15": -1_000_000_000_000_000, "-1": -1, "0": 0, "1": 1, "1000": 1000, "2^62": 1 << 62, "max": math.MaxInt64}
var c05Mps = map[string]int64{"-1": -1, "0": 0, "1": 1, "3": 3, "4": 4, "2^62": 1 << 62}
var c05DT = map[string]time.Duration{"0": 0, "6s": 6 * time.Second, "1d": day, "40d": 40 * day, "101y": 101 * 365 * day}

func (s C05) Events(env world.Env, mm mc.Model) []string {
	m := mm.(c05Model)
	var evs []string
	sizes := []string{"min", "-1e15", "-1", "0", "1", "1000", "2^62", "max"}
	mps := []string{"-1", "0", "1", "3", "2^62"}
	dts := []string{"0", "6s", "1d", "40d", "101y"}
	prices := []string{"0", "-1", "0.000000000000000001", "abc"}
	buys := []string{"30:1", "36500:1", "30:9000000000"}
	if s.Boundary {
		sizes = []string{"-1", "0", "1", "2^62", "max"}
		mps = []string{"1", "4"}
		dts = []string{"1d", "101y"}
		prices = []string{"0", "-1"}
		buys = []string{"36500:1"}
	}
	if m.Posts < 2 {
		for _, sz := range sizes {
			for _, mp := range mps {
				evs = append(evs, "Post:"+sz+":"+mp+":plan", "Post:"+sz+":"+mp+":once")
			}
		}
	}
	for i := range m.Files {
		for _, p := range c05Provers {
			evs = append(evs, fmt.Sprintf("Proof:%s:%d", p, i))
		}
		evs = append(evs, fmt.Sprintf("Delete:%d", i))
		if !s.Boundary {
			evs = append(evs, fmt.Sprintf("RepReq:%d", i), fmt.Sprintf("Report:%d", i))
		}
	}
	for _, b := range buys {
		evs = append(evs, "Buy:"+b)
	}
	// tokens reaching a gauge's escrow account from outside the gauge: a referral commission (the referral field takes any
	// address) and a plain bank transfer
	evs = append(evs, "BuyRefGauge", "SendToGauge")
	if !s.Boundary {
		evs = append(evs, "Shutdown:P1", "InitProv:P1")
	}
	evs = append(evs, "FeedCreate")
	for _, p := range prices {
		evs = append(evs, "FeedPrice:"+p)
	}
	if len(m.Blocks) < 6 {
		for _, d := range dts {
			evs = append(evs, "NextBlock:"+d)
		}
	}
	return evs
}

var digits = regexp.MustCompile(`-?[0-9]+`)

func panicSig(bp *world.BlockPanic) string {
	v := bp.Value
	if i := strings.Index(v, "\n"); i >= 0 {
		v = v[:i]
	}
	v = digits.ReplaceAllString(v, "N")
	if len(v) > 80 {
		v = v[:80]
	}
	return bp.Phase + " " + v
}

const c05Lookahead = 3

func (s C05) Apply(env world.Env, mm mc.Model, ev string) mc.Step {
	w := env.W()
	m := mm.(c05Model)
	m.Blocks, m.Files = append([]string{}, m.Blocks...), append([]string{}, m.Files...)
	p := split(ev)
	st := mc.Step{Outcome: "rejected"}
	var vs []mc.Viol
	u := w.A("U").Bech
	f := c01F1
	fileAt := func(i int) (string, int64) {
		fp := strings.Split(m.Files[i], "|")
		n, _ := strconv.ParseInt(fp[1], 10, 64)
		return fp[0], n
	}
	// differential: the same blocks without any of the messages
	environmental := func(extra int) bool {
		w2 := world.New(s.Config())
		e2 := w2.NewEnvA()
		s.Init(e2)
		for _, d := range m.Blocks {
			if bp := e2.NextBlock(c05DT[d]); bp != nil {
				return true
			}
		}
		for i := 0; i < extra; i++ {
			if bp := e2.NextBlock(day); bp != nil {
				return true
			}
		}
		return false
	}
	switch p[0] {
	case "NextBlock":
		bp := env.NextBlock(c05DT[p[1]])
		m.Blocks = append(m.Blocks, p[1])
		st.Outcome = "block"
		st.Exercised = append(st.Exercised, "block-boundary")
		if bp != nil {
			if environmental(0) {
				vs = append(vs, viol("harness", "environment-panic", "block processing panics even without any message: %s", bp.Value))
			} else {
				vs = append(vs, viol("block-processing-never-panics", panicSig(bp), "%s of height %d panicked: %s", bp.Phase, bp.Height, bp.Value))
			}
			st.Model, st.Viols = m, vs
			return st
		}
	case "Post":
		msg := storagetypes.NewMsgPostFile(u, f.merkle, c05Sizes[p[1]], 0, 0, c05Mps[p[2]], "{}")
		h := env.Ctx().BlockHeight()
		if p[3] == "once" {
			msg.Expires = h + 20_000
		}
		m.Posts++
		if env.Deliver(msg).OK() {
			st.Outcome = "ok"
			id := "U|" + strconv.FormatInt(h, 10)
			if !has(m.Files, id) {
				m.Files = append(m.Files, id)
			}
		}
	case "Proof":
		i, _ := strconv.Atoi(p[2])
		_, start := fileAt(i)
		prover := w.A(p[1]).Bech
		c := int64(0)
		if pr, ok := w.App.StorageKeeper.GetProof(env.Ctx(), prover, f.merkle, u, start); ok {
			c = pr.ChunkToProve
		}
		if c >= 0 && c < int64(len(f.chunks)) {
			item, hl := f.proofFor(int(c))
			if ok, _ := postProofOK(w, env.Deliver(storagetypes.NewMsgPostProof(prover, f.merkle, u, start, item, hl, c))); ok {
				st.Outcome = "ok"
			}
		}
	case "Delete":
		i, _ := strconv.Atoi(p[1])
		_, start := fileAt(i)
		if env.Deliver(storagetypes.NewMsgDeleteFile(u, f.merkle, start)).OK() {
			st.Outcome = "ok"
		}
	case "RepReq":
		i, _ := strconv.Atoi(p[1])
		_, start := fileAt(i)
		if env.Deliver(storagetypes.NewMsgRequestReportForm(w.A("P2").Bech, w.A("P1").Bech, f.merkle, u, start)).OK() {
			st.Outcome = "ok"
		}
	case "Report":
		i, _ := strconv.Atoi(p[1])
		_, start := fileAt(i)
		for _, x := range []string{"P2", "P3"} {
			if env.Deliver(storagetypes.NewMsgReport(w.A(x).Bech, w.A("P1").Bech, f.merkle, u, start)).OK() {
				st.Outcome = "ok"
			}
		}
	case "Buy":
		days, _ := strconv.ParseInt(p[1], 10, 64)
		gbs, _ := strconv.ParseInt(p[2], 10, 64)
		if env.Deliver(storagetypes.NewMsgBuyStorage(u, u, days, gbs*1_000_000_000, "ujkl")).OK() {
			st.Outcome = "ok"
		}
	case "BuyRefGauge", "SendToGauge":
		gs := w.App.StorageKeeper.GetAllPaymentGauges(env.Ctx())
		if len(gs) == 0 {
			break
		}
		acc, err := storagetypes.GetGaugeAccount(gs[0])
		if err != nil {
			break
		}
		var msg sdk.Msg
		if p[0] == "BuyRefGauge" {
			b := w.A("P1").Bech
			bm := storagetypes.NewMsgBuyStorage(b, b, 30, 2_000_000_000, "ujkl")
			bm.Referral = acc.String()
			msg = bm
		} else {
			msg = banktypes.NewMsgSend(w.A("feeder").Addr, acc, sdk.NewCoins(sdk.NewInt64Coin("ujkl", 1_000_000)))
		}
		if env.Deliver(msg).OK() {
			st.Outcome = "ok"
		}
	case "Shutdown":
		if env.Deliver(storagetypes.NewMsgShutdownProvider(w.A(p[1]).Bech)).OK() {
			st.Outcome = "ok"
		}
	case "InitProv":
		if env.Deliver(storagetypes.NewMsgInitProvider(w.A(p[1]).Bech, "https://node.prov1.com", 1_000_000_000, "kb")).OK() {
			st.Outcome = "ok"
		}
	case "FeedCreate":
		if env.Deliver(oracletypes.NewMsgCreateFeed(w.A("feeder").Bech, "jklprice")).OK() {
			st.Outcome = "ok"
		}
	case "FeedPrice":
		if env.Deliver(oracletypes.NewMsgUpdateFeed(w.A("feeder").Bech, "jklprice", `{"price":"`+p[1]+`","24h_change":"0"}`)).OK() {
			st.Outcome = "ok"
		}
	}
	// look ahead: the next blocks (reward heights and their neighbours) must be processed without panicking
	if ea, ok := env.(*world.EnvA); ok && st.Outcome == "ok" {
		la := ea.Fork()
		var extra []string
		for i := 0; i < c05Lookahead; i++ {
			extra = append(extra, "NextBlock:1d")
			if bp := la.NextBlock(day); bp != nil {
				st.Exercised = append(st.Exercised, "lookahead-panic")
				if environmental(i + 1) {
					vs = append(vs, viol("harness", "environment-panic", "block processing panics even without any message: %s", bp.Value))
				} else {
					v := viol("block-processing-never-panics", panicSig(bp), "%s of height %d panicked: %s", bp.Phase, bp.Height, bp.Value)
					v.ExtraPath = extra
					vs = append(vs, v)
				}
				break
			}
		}
		st.Exercised = append(st.Exercised, "lookahead")
	}
	st.Model, st.Viols = m, vs
	return st
}

func init() {
	regScenario(C05{})
	regScenario(C05{Boundary: true})
	Props["C05"] = Prop{Level: "model_checking", Run: func(r *mc.Run, tier string) {
		r.Rules = append(r.Rules, "BFS over storage PostFile with FileSize in {-2^63,-1e15,-1,0,1,1000,2^62,2^63-1} x MaxProofs in {-1,0,1,3,2^62} x {plan-paid, pay-once}, valid proofs by 3 provers, BuyStorage (30 d / 100 y; 1 GB / 9e18 B), delete, provider init/shutdown, report forms, oracle feed creation and prices {0,-1,1e-18,abc}, NextBlock with time steps {0,6 s,1 d,40 d,101 y}; a second, deeper pass over the boundary values only; after every accepted transaction three further one-day blocks are processed on a fork (reward heights and neighbours). Oracle: the whole application's BeginBlocker/EndBlocker return without panic; a panic is attributed to user input only if the same blocks without the messages do not panic")
		r.Assumptions = append(r.Assumptions, "one otherwise idle genesis validator; IBC/wasm/gov untouched", "values outside the listed alphabets are not covered")
		r.AddExplore(C05{}, opts(tier, 3, 5, 40, 900, 60, 600))
		r.AddExplore(C05{Boundary: true}, opts(tier, 5, 8, 40, 900, 60, 600))
	}}
	_ = sdk.ZeroInt
}

// ---------------------------------------------------------------------------------------------
// reward-block configurations with extreme sizes (start from non-initial states): up to four files, each with a
// size from the boundary set and one prover out of two, posted and proven through real messages; then the next
// blocks (two reward heights) must be processed without panicking.

var c05CfgSizes = []int64{1, 1000, 1 << 62, math.MaxInt64}

func c05ConfigEnum(thorough bool) mc.Enum {
	e := mc.Enum{Prop: "C05", Name: "C05/reward-configs", Cfg: C05{}.Config(), ConfirmB: true, ConfB: 25,
		Setup: func(env world.Env) { C05{}.Init(env) }}
	files := make([]*sfile, 4)
	for i := range files {
		files[i] = mkFile(seqBytes(12, byte(40+i)), 4)
	}
	maxFiles := 3
	if thorough {
		maxFiles = 4
	}
	type fc struct {
		size   int64
		prover string
		plan   bool
	}
	var rec func(cur []fc)
	rec = func(cur []fc) {
		if len(cur) > 0 {
			cfg := append([]fc{}, cur...)
			var d []string
			for _, f := range cfg {
				d = append(d, fmt.Sprintf("%d@%s/%v", f.size, f.prover, f.plan))
			}
			e.Cases = append(e.Cases, mc.Case{Desc: "files|" + strings.Join(d, "|"), Run: func(env world.Env) mc.CaseResult {
				w := env.W()
				u := w.A("U").Bech
				cr := mc.CaseResult{Class: "no-panic"}
				h := env.Ctx().BlockHeight()
				posted := 0
				for i, f := range cfg {
					mp := int64(len(strings.Split(f.prover, "+")))
					if f.prover == "P1^x2" {
						mp = 3
					}
					if f.prover == "P1@2^45" { // a tiny file with an astronomically large replication count
						mp = 1 << 45
					}
					msg := storagetypes.NewMsgPostFile(u, files[i].merkle, f.size, 0, 0, mp, "{}")
					if f.prover == "nobody@short" { // a 3-byte Merkle root (the field's length is not validated); nobody can prove it
						msg.Merkle = []byte{1, 2, byte(i)}
					}
					if !f.plan {
						msg.Expires = h + 20_000
					}
					if !env.Deliver(msg).OK() {
						continue
					}
					posted++
					if f.prover == "nobody@short" {
						continue
					}
					if f.prover == "P1^x2" { // P1 signs with the capital spelling of its address and proves twice
						up := strings.ToUpper(w.A("P1").Bech)
						item, hl := files[i].proofFor(0)
						env.Deliver(storagetypes.NewMsgPostProof(up, files[i].merkle, u, h, item, hl, 0))
						c := int64(0)
						for _, sp := range []string{up, w.A("P1").Bech} {
							if pr, ok := w.App.StorageKeeper.GetProof(env.Ctx(), sp, files[i].merkle, u, h); ok {
								c = pr.ChunkToProve
								break
							}
						}
						if c < int64(len(files[i].chunks)) {
							item, hl = files[i].proofFor(int(c))
						}
						if ok, _ := postProofOK(w, env.Deliver(storagetypes.NewMsgPostProof(up, files[i].merkle, u, h, item, hl, c))); !ok && c != 0 {
							item, hl = files[i].proofFor(0) // a prover that lost track of its challenge starts over with the join proof
							env.Deliver(storagetypes.NewMsgPostProof(up, files[i].merkle, u, h, item, hl, 0))
						}
						continue
					}
					for _, pv := range strings.Split(strings.TrimSuffix(f.prover, "@2^45"), "+") {
						item, hl := files[i].proofFor(0)
						env.Deliver(storagetypes.NewMsgPostProof(w.A(pv).Bech, files[i].merkle, u, h, item, hl, 0))
					}
				}
				cr.Nontrivial = posted >= 2
				for b := 0; b < 8; b++ { // past the first removal of lapsed provers (height 8)
					if bp := env.NextBlock(day); bp != nil {
						cr.Class = "panic"
						cr.Viols = append(cr.Viols, viol("block-processing-never-panics", panicSig(bp), "files %s: %s of height %d panicked: %s", strings.Join(d, " "), bp.Phase, bp.Height, bp.Value))
						break
					}
				}
				return cr
			}})
		}
		if len(cur) == maxFiles {
			return
		}
		for _, sz := range c05CfgSizes {
			for _, p := range []string{"P1", "P2", "P1+P2", "P1^x2", "P1@2^45", "nobody@short"} {
				for _, plan := range []bool{false, true} {
					if p == "nobody@short" {
						if sz == c05CfgSizes[1] && !plan {
							rec(append(append([]fc{}, cur...), fc{1000, p, false}))
						}
						continue
					}
					if p == "P1@2^45" { // size 1 only (the product must fit), pay-once
						if sz == c05CfgSizes[0] && !plan {
							rec(append(append([]fc{}, cur...), fc{1, p, false}))
						}
						continue
					}
					if p == "P1^x2" { // the capital-spelled prover re-proves, which needs the real 12 bytes: one size, pay-once
						if sz == c05CfgSizes[0] && !plan {
							rec(append(append([]fc{}, cur...), fc{12, p, false}))
						}
						continue
					}
					if p == "P1+P2" && (sz > 1<<62 || plan) {
						continue // two provers need MaxProofs 2: size*2 must not overflow; keep this variant pay-once
					}
					if plan && len(cur) == 0 {
						continue // a plan-paid post of an extreme size needs space already in use to wrap; keep the first pay-once
					}
					rec(append(append([]fc{}, cur...), fc{sz, p, plan}))
				}
			}
		}
	}
	rec(nil)
	// providers whose announced address is accepted by the message although it is no ordinary URL: the address is read
	// again wherever providers are grouped by domain and wherever a lapse is recorded
	for _, ip := range []string{"localhost:3333", "node1.example.com:3333", "http://:3333", "/x", "https://example.com.", "http://[::1]:80", "mailto:x@y", "https://", "https://a..b", "x:", "https://.", "http://%41.com", "https://ex ample.com"} {
		for _, via := range []string{"SetProviderIP", "InitProvider"} {
			ip, via := ip, via
			e.Cases = append(e.Cases, mc.Case{Desc: fmt.Sprintf("provider-address|%q|%s", ip, via), Run: func(env world.Env) mc.CaseResult {
				w := env.W()
				u, p1 := w.A("U").Bech, w.A("P1").Bech
				cr := mc.CaseResult{Class: "address-refused"}
				if via == "InitProvider" { // a fresh registration with that address
					if !env.Deliver(storagetypes.NewMsgShutdownProvider(p1)).OK() || !env.Deliver(storagetypes.NewMsgInitProvider(p1, ip, 1_000_000_000, "kb")).OK() {
						return cr
					}
				} else if !env.Deliver(storagetypes.NewMsgSetProviderIP(p1, ip)).OK() {
					return cr
				}
				cr.Class, cr.Nontrivial = "no-panic", true
				h := env.Ctx().BlockHeight()
				msg := storagetypes.NewMsgPostFile(u, files[0].merkle, 12, 0, 0, 2, "{}")
				msg.Expires = h + 20_000
				mustOK(env.Deliver(msg), "PostFile")
				for _, pv := range []string{"P1", "P2"} {
					item, hl := files[0].proofFor(0)
					env.Deliver(storagetypes.NewMsgPostProof(w.A(pv).Bech, files[0].merkle, u, h, item, hl, 0))
				}
				env.Deliver(storagetypes.NewMsgRequestAttestationForm(w.A("P2").Bech, files[0].merkle, u, h))
				env.Deliver(storagetypes.NewMsgRequestReportForm(u, p1, files[0].merkle, u, h))
				for b := 0; b < 8; b++ { // past the removal of the lapsed provers
					if bp := env.NextBlock(day); bp != nil {
						cr.Class = "panic"
						cr.Viols = append(cr.Viols, viol("block-processing-never-panics", panicSig(bp), "provider address %q (%s): %s of height %d panicked: %s", ip, via, bp.Phase, bp.Height, bp.Value))
						break
					}
				}
				return cr
			}})
		}
	}
	// pay-once files paid for centuries ahead: the gauge's lifetime lies beyond what a time.Duration can hold (about 292 years)
	for _, years := range []int64{100, 292, 293, 400, 5000, 100000} {
		years := years
		e.Cases = append(e.Cases, mc.Case{Desc: fmt.Sprintf("far-expiry|%d years", years), Run: func(env world.Env) mc.CaseResult {
			w := env.W()
			u := w.A("U").Bech
			cr := mc.CaseResult{Class: "post-refused"}
			h := env.Ctx().BlockHeight()
			msg := storagetypes.NewMsgPostFile(u, files[0].merkle, 1000, 0, 0, 3, "{}")
			msg.Expires = h + years*365*14400
			if !env.Deliver(msg).OK() {
				return cr
			}
			cr.Class, cr.Nontrivial = "no-panic", true
			for b := 0; b < 8; b++ {
				if bp := env.NextBlock(day); bp != nil {
					cr.Class = "panic"
					cr.Viols = append(cr.Viols, viol("block-processing-never-panics", panicSig(bp), "pay-once file paid for %d years: %s of height %d panicked: %s", years, bp.Phase, bp.Height, bp.Value))
					break
				}
			}
			return cr
		}})
	}
	// a prover struck off by a passed report (or refreshed by a passed attestation) while its file is young or old, then
	// reward blocks
	for _, kind := range []string{"report", "attest", "both"} {
		for delay := 0; delay <= 3; delay++ {
			kind, delay := kind, delay
			e.Cases = append(e.Cases, mc.Case{Desc: fmt.Sprintf("forms|%s|after %d blocks", kind, delay), Run: func(env world.Env) mc.CaseResult {
				w := env.W()
				u := w.A("U").Bech
				cr := mc.CaseResult{Class: "no-panic", Nontrivial: true}
				h := env.Ctx().BlockHeight()
				msg := storagetypes.NewMsgPostFile(u, files[0].merkle, 12, 0, 0, 3, "{}")
				msg.Expires = h + 20_000
				mustOK(env.Deliver(msg), "PostFile")
				for _, pv := range c05Provers {
					item, hl := files[0].proofFor(0)
					env.Deliver(storagetypes.NewMsgPostProof(w.A(pv).Bech, files[0].merkle, u, h, item, hl, 0))
				}
				blocks := 0
				next := func() bool {
					blocks++
					if bp := env.NextBlock(day); bp != nil {
						cr.Class = "panic"
						cr.Viols = append(cr.Viols, viol("block-processing-never-panics", panicSig(bp), "forms %s after %d blocks: %s of height %d panicked: %s", kind, delay, bp.Phase, bp.Height, bp.Value))
						return false
					}
					return true
				}
				for i := 0; i < delay; i++ {
					if !next() {
						return cr
					}
				}
				p1 := w.A("P1").Bech
				if kind != "attest" {
					env.Deliver(storagetypes.NewMsgRequestReportForm(u, p1, files[0].merkle, u, h))
					for _, pv := range []string{"P2", "P3"} {
						env.Deliver(storagetypes.NewMsgReport(w.A(pv).Bech, p1, files[0].merkle, u, h))
					}
				}
				if kind != "report" {
					p2 := w.A("P2").Bech
					env.Deliver(storagetypes.NewMsgRequestAttestationForm(p2, files[0].merkle, u, h))
					for _, pv := range []string{"P1", "P3"} {
						env.Deliver(storagetypes.NewMsgAttest(w.A(pv).Bech, p2, files[0].merkle, u, h))
					}
				}
				for blocks < 9 {
					if !next() {
						return cr
					}
				}
				return cr
			}})
		}
	}
	// several identical purchases in one block (their gauges share one identity), then reward blocks
	for n := 2; n <= 4; n++ {
		for _, pr := range [][2]int64{{30, 1_000_000_000}, {365, 5_000_000_000_000}} {
			n, pr := n, pr
			e.Cases = append(e.Cases, mc.Case{Desc: fmt.Sprintf("equal-purchases|n=%d|days=%d|bytes=%d", n, pr[0], pr[1]), Run: func(env world.Env) mc.CaseResult {
				w := env.W()
				cr := mc.CaseResult{Class: "no-panic"}
				ok := 0
				for _, b := range []string{"P1", "P2", "P3", "feeder"}[:n] {
					if env.Deliver(storagetypes.NewMsgBuyStorage(w.A(b).Bech, w.A(b).Bech, pr[0], pr[1], "ujkl")).OK() {
						ok++
					}
				}
				cr.Nontrivial = ok >= 2
				for b := 0; b < 8; b++ {
					if bp := env.NextBlock(day); bp != nil {
						cr.Class = "panic"
						cr.Viols = append(cr.Viols, viol("block-processing-never-panics", panicSig(bp), "%d identical purchases (%d days, %d bytes) in one block: %s of height %d panicked: %s", n, pr[0], pr[1], bp.Phase, bp.Height, bp.Value))
						break
					}
				}
				return cr
			}})
		}
	}
	return e
}

func init() {
	CaseReplayers["C05/reward-configs"] = func(r *mc.Run, c string) { r.ReplayCase(c05ConfigEnum(true), c) }
	prev := Props["C05"].Run
	Props["C05"] = Prop{Level: "model_checking", Run: func(r *mc.Run, tier string) {
		prev(r, tier)
		r.Rules = append(r.Rules, "plus an exhaustive enumeration of reward-block configurations: up to 3 (thorough 4) files, each with FileSize in {1,1000,2^62,2^63-1}, one or two provers, pay-once or plan-paid, posted and proven through real messages, followed by eight one-day blocks (past the first removal of lapsed provers); 13 provider addresses that the message accepts although they are no ordinary URL (no scheme, no host, trailing dot, IPv6, opaque), set by SetProviderIP or a fresh InitProvider, with that provider lapsing on a file and named on forms; a prover struck off by a passed report / refreshed by a passed attestation 0-3 blocks after it joined; pay-once files paid for 100 to 100000 years ahead; and 2-4 identical purchases in one block followed by eight one-day blocks")
		dl := time.Now().Add(40 * time.Second)
		if tier == "thorough" {
			dl = time.Now().Add(15 * time.Minute)
		}
		r.AddEnum(c05ConfigEnum(tier == "thorough"), workers(), dl)
	}}
}
