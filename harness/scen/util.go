// Package scen holds one scenario (alphabet, reference model, oracle clauses) per property.
package scen

import (
	"encoding/json"
	"fmt"
	"sort"
	"strings"

	sdk "github.com/cosmos/cosmos-sdk/types"
	authtypes "github.com/cosmos/cosmos-sdk/x/auth/types"

	"verif/harness/mc"
	"verif/harness/world"
)

// jsonModel is a helper: any JSON-marshalable value whose encoding is canonical (maps are sorted by encoding/json).
func jkey(v interface{}) []byte {
	bz, err := json.Marshal(v)
	if err != nil {
		panic(err)
	}
	return bz
}

func modAddr(name string) sdk.AccAddress { return authtypes.NewModuleAddress(name) }

// diffString renders a balance diff with account names.
func diffString(w *world.World, d map[string]map[string]sdk.Int, labels map[string]string) string {
	var parts []string
	for _, a := range world.SortedKeys(d) {
		n := w.NameOf(a)
		if l, ok := labels[a]; ok {
			n = l
		}
		for _, dn := range world.SortedKeys(d[a]) {
			parts = append(parts, fmt.Sprintf("%s:%s%s", n, d[a][dn].String(), dn))
		}
	}
	sort.Strings(parts)
	return strings.Join(parts, ",")
}

func deltaOf(d map[string]map[string]sdk.Int, addr, denom string) sdk.Int {
	if m, ok := d[addr]; ok {
		if v, ok := m[denom]; ok {
			return v
		}
	}
	return sdk.ZeroInt()
}

func viol(clause, sig, detail string, a ...interface{}) mc.Viol {
	return mc.Viol{Clause: clause, Sig: clause + ":" + sig, Detail: fmt.Sprintf(detail, a...)}
}

func split(ev string) []string { return strings.Split(ev, ":") }
