package scen

import (
	"fmt"
	"strings"
	"time"

	sdk "github.com/cosmos/cosmos-sdk/types"

	fttypes "github.com/jackalLabs/canine-chain/v4/x/filetree/types"

	"verif/harness/mc"
	"verif/harness/world"
)

// C20 — hashed file-tree paths keep the parent/child relation; a trailing slash is neutral.

// "\u00e9" and "e\u0301" render alike but are different byte strings: different folder names
var c20Sigma = []string{"", "a", "b", "ab", "\u00e9", "e\u0301", " ", "s", "home", ".", "..", "a%20b", "100%", hexsha("x"), strings.Repeat("x", 300), "caf\xe9", "caf\xe8", "a\\b", "a\\", "a:b"} // round 12: segments holding a backslash (inside and trailing) or a colon, bytes that other systems treat as separators; hexsha("x"): a segment that looks like a sha256 digest; the last two: Latin-1 bytes that are not valid UTF-8

func c20Canon(segs []string) []string {
	if len(segs) > 1 && segs[len(segs)-1] == "" {
		return segs[:len(segs)-1]
	}
	return segs
}

func c20Fold(segs []string) string {
	total := ""
	for _, c := range segs {
		total = hexsha(total + hexsha(c))
	}
	return total
}

// c20CheckSeq checks every clause on one segment sequence.
func c20CheckSeq(segs []string) []mc.Viol {
	var vs []mc.Viol
	path := strings.Join(segs, "/")
	n := len(segs)
	got := fttypes.MerklePath(path)
	if want := c20Fold(c20Canon(segs)); got != want {
		vs = append(vs, viol("address-is-fold-of-segment-hashes", "fold", "MerklePath(%q) = %s, independent fold = %s", path, got, want))
	}
	if segs[n-1] != "" && n >= 2 && segs[n-2] != "" {
		// the repository's own client-side splitter (used to build PostFile messages from a plain path)
		ph, ch := fttypes.MerkleHelper(path)
		if ph != ftMerkle(strings.Join(segs[:n-1], "/")) || ch != hexsha(segs[n-1]) || fttypes.AddToMerkle(ph, ch) != got {
			vs = append(vs, viol("child-address-from-parent-address", "client-splitter", "MerkleHelper(%q) = (%s, %s): combining them gives %s, MerklePath gives %s", path, ph, ch, fttypes.AddToMerkle(ph, ch), got))
		}
	}
	if segs[n-1] != "" { // path does not end in '/'
		if a, b := fttypes.MerklePath(path+"/"), got; a != b {
			vs = append(vs, viol("trailing-slash-neutral", "slash", "MerklePath(%q) != MerklePath(%q)", path+"/", path))
		}
		if n >= 2 && segs[n-2] != "" { // parent does not end in '/', child is a non-empty single segment
			parent := strings.Join(segs[:n-1], "/")
			child := segs[n-1]
			if a := fttypes.AddToMerkle(fttypes.MerklePath(parent), hexsha(child)); a != got {
				vs = append(vs, viol("child-address-from-parent-address", "add", "AddToMerkle(MerklePath(%q), sha256(%q)) = %s but MerklePath(%q) = %s", parent, child, a, path, got))
			}
			if a := ftAdd(ftMerkle(parent), hexsha(child)); a != got {
				vs = append(vs, viol("child-address-from-parent-address", "client-derivation", "a client deriving %q from the parent address gets %s, chain computes %s", path, a, got))
			}
		}
	}
	return vs
}

func c20Seqs(first string, maxLen int, fn func(segs []string)) {
	var rec func(cur []string)
	rec = func(cur []string) {
		fn(cur)
		if len(cur) == maxLen {
			return
		}
		for _, s := range c20Sigma {
			rec(append(append([]string{}, cur...), s))
		}
	}
	rec([]string{first})
}

func c20Enum(thorough bool) mc.Enum {
	maxLen := 4
	if thorough {
		maxLen = 5
	}
	e := mc.Enum{Prop: "C20", Name: "C20/paths", Cfg: world.Config{Accounts: []string{"O", "E"}}, ConfirmB: false, ConfB: 12}
	for _, first := range c20Sigma {
		first := first
		e.Cases = append(e.Cases, mc.Case{Desc: fmt.Sprintf("seqs-starting-with|%q|maxlen=%d", first, maxLen), Run: func(env world.Env) mc.CaseResult {
			cr := mc.CaseResult{Class: "pure"}
			c20Seqs(first, maxLen, func(segs []string) {
				cr.Count++
				if len(segs) >= 2 {
					cr.NontrivialCount++
				}
				cr.Viols = append(cr.Viols, c20CheckSeq(segs)...)
			})
			return cr
		}})
	}
	// deep paths: every depth 1..260 of one repeated segment, with each other segment of the alphabet in the last place
	e.Cases = append(e.Cases, mc.Case{Desc: "deep-paths|1..260", Run: func(env world.Env) mc.CaseResult {
		cr := mc.CaseResult{Class: "pure"}
		for _, base := range []string{"a", "home"} {
			var segs []string
			for depth := 1; depth <= 260; depth++ {
				segs = append(segs, base)
				for _, last := range []string{base, "b", "\u00e9", "s"} {
					sq := append(append([]string{}, segs[:depth-1]...), last)
					cr.Count++
					cr.NontrivialCount++
					cr.Viols = append(cr.Viols, c20CheckSeq(sq)...)
					if len(cr.Viols) > 20 {
						return cr
					}
				}
			}
		}
		return cr
	}})
	e.Cases = append(e.Cases, mc.Case{Desc: fmt.Sprintf("injectivity|maxlen=%d", maxLen), Run: func(env world.Env) mc.CaseResult {
		cr := mc.CaseResult{Class: "pure"}
		seen := map[string]string{}
		for _, first := range c20Sigma {
			c20Seqs(first, maxLen, func(segs []string) {
				cr.Count++
				cr.NontrivialCount++
				canon := strings.Join(c20Canon(segs), "\x00")
				a := fttypes.MerklePath(strings.Join(segs, "/"))
				if prev, ok := seen[a]; ok && prev != canon {
					cr.Viols = append(cr.Viols, viol("distinct-sequences-distinct-addresses", "collision", "sequences %q and %q share address %s", prev, canon, a))
				}
				seen[a] = canon
			})
		}
		return cr
	}})
	// the real chain: provision a root, post a chain of folders, compare the returned Path with the plain-path hash
	chainSigma := []string{"a", "b", "\u00e9", "e\u0301", " ", "home", "caf\xe9", "a\\b"}
	for _, c1 := range chainSigma {
		for _, c2 := range chainSigma {
			c1, c2 := c1, c2
			e.Cases = append(e.Cases, mc.Case{Desc: fmt.Sprintf("chain|s/%s/%s/*", c1, c2), Run: func(env world.Env) mc.CaseResult {
				return c20Chain(env, c1, c2, chainSigma, "O")
			}})
			// the same chain posted by a second account that holds edit access, into the owner's tree
			e.Cases = append(e.Cases, mc.Case{Desc: fmt.Sprintf("chain-by-editor|s/%s/%s/*", c1, c2), Run: func(env world.Env) mc.CaseResult {
				return c20Chain(env, c1, c2, chainSigma, "E")
			}})
		}
	}
	return e
}

func c20Chain(env world.Env, c1, c2 string, sigma []string, poster string) mc.CaseResult {
	w := env.W()
	o := w.A("O").Bech
	by := w.A(poster).Bech
	cr := mc.CaseResult{Class: "chain-by-" + poster}
	ed := jmap(map[string]string{ftEditorID(c10Track, o): "k", ftEditorID(c10Track, by): "k"})
	vi := jmap(map[string]string{ftViewerID(c10Track, o): "k"})
	if r := env.Deliver(fttypes.NewMsgProvisionFileTree(o, ed, vi, c10Track)); !r.OK() {
		cr.Viols = append(cr.Viols, viol("harness", "provision", "provision failed: %v", r.Err))
		return cr
	}
	post := func(parentPlain, child string) {
		cr.Count++
		cr.NontrivialCount++
		res := env.Deliver(fttypes.NewMsgPostFile(by, ftAcct(o), fttypes.MerklePath(parentPlain), hexsha(child), "c", vi, ed, c10Track))
		plain := parentPlain + "/" + child
		if !res.OK() {
			cr.Viols = append(cr.Viols, viol("post-under-own-folder-accepted", "rejected", "posting %q failed: %v", plain, res.Err))
			return
		}
		var resp fttypes.MsgPostFileResponse
		if err := w.Cdc().Unmarshal(res.RespData, &resp); err != nil {
			cr.Viols = append(cr.Viols, viol("harness", "decode", "cannot decode response: %v", err))
			return
		}
		if want := fttypes.MerklePath(plain); resp.Path != want || resp.Path != ftMerkle(plain) {
			cr.Viols = append(cr.Viols, viol("posted-address-equals-plain-path-address", "path", "posting %q returned %s, MerklePath gives %s, independent fold %s", plain, resp.Path, want, ftMerkle(plain)))
		}
		if _, found := w.App.FileTreeKeeper.GetFiles(env.Ctx(), ftMerkle(plain), ftOwner(ftMerkle(plain), ftAcct(o))); !found {
			cr.Viols = append(cr.Viols, viol("posted-entry-found-at-plain-path-address", "lookup", "entry %q not found at its computed address", plain))
		}
	}
	post("s", c1)
	post("s/"+c1, c2)
	for _, c3 := range sigma {
		post("s/"+c1+"/"+c2, c3)
	}
	_ = sdk.ZeroInt
	return cr
}

func init() {
	CaseReplayers["C20/paths"] = func(r *mc.Run, c string) { r.ReplayCase(c20Enum(strings.Contains(c, "maxlen=5")), c) }
	Props["C20"] = Prop{Level: "exploration", Run: func(r *mc.Run, tier string) {
		r.Rules = append(r.Rules, "every segment sequence of length 1..4 (thorough: 5) over {\"\",a,b,ab,é (precomposed),é (e + combining accent),space,s,home,.,..,a%20b,100%,digest-shaped,300-byte,two names with Latin-1 bytes that are not valid UTF-8,a\\b,a\\ (trailing backslash),a:b}: MerklePath vs an independent fold, trailing-slash neutrality, child = AddToMerkle(parent, sha256(child)), pairwise-distinct addresses; paths of every depth 1..260; plus 512 folder chains of depth 3 posted through the real ProvisionFileTree/PostFile handlers, by the owner and by a second account holding edit access. Non-trivial = sequences with >= 2 segments / posts")
		r.Assumptions = append(r.Assumptions, "SHA-256 collision freedom", "parents ending in '/' and empty or '/'-containing last segments are unspecified (the statement's clauses conflict there)")
		r.AddEnum(c20Enum(tier == "thorough"), workers(), time.Time{})
	}}
}
