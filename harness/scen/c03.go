package scen

import (
	"fmt"
	"strconv"
	"strings"
	"time"

	"github.com/cosmos/cosmos-sdk/codec"
	sdk "github.com/cosmos/cosmos-sdk/types"
	banktypes "github.com/cosmos/cosmos-sdk/x/bank/types"

	"github.com/jackalLabs/canine-chain/v4/app"
	storagetypes "github.com/jackalLabs/canine-chain/v4/x/storage/types"

	"verif/harness/mc"
	"verif/harness/world"
)

// C03 — reward blocks pay each proven prover its proportional share exactly once.
//
// Bounded-exhaustive construction of the configuration at a reward block: every ordering of every non-empty subset
// of three provers as a file's prover list (list order = join order, produced by real PostProofs), every subset of
// them missing the last window, several sizes, one or two files, two or three gauges (one with two denominations).

var c03Provers = []string{"P1", "P2", "P3"}

func c03Config(reg3 bool) world.Config {
	gaugeEnd := world.FirstBlockTime.Add(40 * day)
	g := storagetypes.PaymentGauge{Id: []byte("genesis-gauge-2denoms"), Start: world.FirstBlockTime, End: gaugeEnd,
		Coins: sdk.NewCoins(sdk.NewInt64Coin("ujkl", 40_000_000), sdk.NewInt64Coin("uatom", 7_000_003))}
	return world.Config{
		Accounts: []string{"U", "U2", "P1", "P2", "P3"},
		Balances: map[string]sdk.Coins{"U": world.DefaultBalance().Add(sdk.NewInt64Coin("utiny", 1000))},
		Storage: func(p *storagetypes.Params) {
			p.ChunkSize, p.ProofWindow, p.CheckWindow = 4, 3, 2
			p.CollateralPrice = 1000
		},
		GenesisMod: func(cdc codec.JSONCodec, gs app.GenesisState) {
			var st storagetypes.GenesisState
			cdc.MustUnmarshalJSON(gs[storagetypes.ModuleName], &st)
			st.PaymentGauges = append(st.PaymentGauges, g)
			gs[storagetypes.ModuleName] = cdc.MustMarshalJSON(&st)
			var bk banktypes.GenesisState
			cdc.MustUnmarshalJSON(gs[banktypes.ModuleName], &bk)
			acc, err := storagetypes.GetGaugeAccount(g)
			if err != nil {
				panic(err)
			}
			bk.Balances = append(bk.Balances, banktypes.Balance{Address: acc.String(), Coins: g.Coins})
			bk.Supply = bk.Supply.Add(g.Coins...)
			gs[banktypes.ModuleName] = cdc.MustMarshalJSON(&bk)
		},
	}
}

type c03File struct {
	payOnce bool // posted with a one-time payment (no plan space needed: used for sizes no plan can hold)
	f       *sfile
	size    int64    // declared FileSize (the reward weight); the Merkle tree is over the real bytes
	list    []string // join order
	fail    map[string]bool
	young   bool // posted late, so that it is still inside its first window at the reward block under test
	// abandoned: posted at block 4 and never taken up by a prover, so that the reward block under test (height 8) is the
	// first one at which it is past its first window and gets dropped
	abandoned bool
	proofType int64 // the (unvalidated, client-supplied) proof type the file is posted with
}

func perms(xs []string) [][]string {
	if len(xs) <= 1 {
		return [][]string{append([]string{}, xs...)}
	}
	var out [][]string
	for i := range xs {
		rest := append(append([]string{}, xs[:i]...), xs[i+1:]...)
		for _, p := range perms(rest) {
			out = append(out, append([]string{xs[i]}, p...))
		}
	}
	return out
}

// orderedSubsets: every ordering of every non-empty subset.
func orderedSubsets(xs []string) [][]string {
	var out [][]string
	n := len(xs)
	for mask := 1; mask < 1<<n; mask++ {
		var sub []string
		for i := 0; i < n; i++ {
			if mask&(1<<i) != 0 {
				sub = append(sub, xs[i])
			}
		}
		out = append(out, perms(sub)...)
	}
	return out
}

func subsetsOf(xs []string) []map[string]bool {
	var out []map[string]bool
	for mask := 0; mask < 1<<len(xs); mask++ {
		m := map[string]bool{}
		for i, x := range xs {
			if mask&(1<<i) != 0 {
				m[x] = true
			}
		}
		out = append(out, m)
	}
	return out
}

func failDesc(list []string, fail map[string]bool) string {
	var s []string
	for _, p := range list {
		if fail[p] {
			s = append(s, p+"✗")
		} else {
			s = append(s, p)
		}
	}
	return "[" + strings.Join(s, ",") + "]"
}

// positional pattern of the failing entries, e.g. "✗✓✓": the defect signature is about positions, not names
func failPattern(list []string, fail map[string]bool) string {
	s := ""
	for _, p := range list {
		if fail[p] {
			s += "x"
		} else {
			s += "o"
		}
	}
	return s
}

func burnOf(w *world.World, ctx sdk.Context, who string) (int64, bool) {
	p, ok := w.App.StorageKeeper.GetProviders(ctx, w.A(who).Bech)
	if !ok {
		return 0, false
	}
	n, _ := strconv.ParseInt(p.BurnedContracts, 10, 64)
	return n, true
}

// c03Run builds the configuration with real messages, runs the reward block under test and checks it.
func c03Run(env world.Env, files []c03File, extraGauge bool, reg3 bool) mc.CaseResult {
	return c03RunOpt(env, files, extraGauge, reg3, false)
}

// raiseWindow: governance raises the ProofWindow parameter (3 -> 10) after the files were posted; each file keeps the
// proof window it was posted with, so nothing about the reward block under test may change.
func c03RunOpt(env world.Env, files []c03File, extraGauge bool, reg3 bool, raiseWindow bool) mc.CaseResult {
	return c03RunOpt2(env, files, extraGauge, reg3, raiseWindow, false)
}

// atomGauge: a further gauge holding 8 utiny over 8 days, so that a reward block releases a third denomination of
// which a prover's share truncates to zero while its ujkl and uatom shares are positive.
func c03RunOpt2(env world.Env, files []c03File, extraGauge bool, reg3 bool, raiseWindow bool, atomGauge bool) mc.CaseResult {
	return c03RunOpt3(env, files, extraGauge, reg3, raiseWindow, atomGauge, day)
}

// step: the time between blocks. With 11-day blocks the 30-day plan and its payment gauge have run out before the
// reward block under test (the gauge is swept at height 6), so that block finds no gauge at all: it has nothing to
// pay, and still has to strike off whoever missed the window.
func c03RunOpt3(env world.Env, files []c03File, extraGauge bool, reg3 bool, raiseWindow bool, atomGauge bool, step time.Duration) mc.CaseResult {
	w := env.W()
	cr := mc.CaseResult{Class: "reward-block"}
	u := w.A("U").Bech
	regs := map[string]bool{"P1": true, "P2": true, "P3": reg3}
	for i, p := range c03Provers {
		if regs[p] {
			mustOK(env.Deliver(storagetypes.NewMsgInitProvider(w.A(p).Bech, fmt.Sprintf("https://node.provider%d.com", i+1), 1_000_000_000, "kb")), "InitProvider")
		}
	}
	mustOK(env.Deliver(storagetypes.NewMsgBuyStorage(u, u, 30, 1000_000_000_000, "ujkl")), "BuyStorage")
	if extraGauge {
		u2 := w.A("U2").Bech
		mustOK(env.Deliver(storagetypes.NewMsgBuyStorage(u2, u2, 60, 500_000_000_000, "ujkl")), "BuyStorage2")
	}
	if atomGauge {
		env.Mutate(func(ctx sdk.Context) {
			k := w.App.StorageKeeper
			coins := sdk.NewCoins(sdk.NewInt64Coin("utiny", 8))
			pg := k.NewGauge(ctx, coins, ctx.BlockTime().Add(8*day))
			acc, err := storagetypes.GetGaugeAccount(pg)
			if err != nil {
				panic(err)
			}
			if err := w.App.BankKeeper.SendCoins(ctx, w.A("U").Addr, acc, coins); err != nil {
				panic(err)
			}
		})
	}
	starts := make([]int64, len(files))
	post := func(i int) {
		fl := files[i]
		starts[i] = env.Ctx().BlockHeight()
		pm := storagetypes.NewMsgPostFile(u, fl.f.merkle, fl.size, 0, fl.proofType, 3, "{}")
		if fl.payOnce {
			pm.MaxProofs = 1
			pm.Expires = starts[i] + 200_000
		}
		mustOK(env.Deliver(pm), "PostFile")
		for _, p := range fl.list {
			item, hl := fl.f.proofFor(0)
			ok, e := postProofOK(w, env.Deliver(storagetypes.NewMsgPostProof(w.A(p).Bech, fl.f.merkle, u, starts[i], item, hl, 0)))
			if !ok {
				panic("setup: join proof rejected: " + e)
			}
		}
	}
	prove := func(i int, p string) {
		fl := files[i]
		pr, ok := w.App.StorageKeeper.GetProof(env.Ctx(), w.A(p).Bech, fl.f.merkle, u, starts[i])
		if !ok {
			panic("setup: proof record missing for " + p)
		}
		item, hl := fl.f.proofFor(int(pr.ChunkToProve))
		ok2, e := postProofOK(w, env.Deliver(storagetypes.NewMsgPostProof(w.A(p).Bech, fl.f.merkle, u, starts[i], item, hl, pr.ChunkToProve)))
		if !ok2 {
			panic("setup: honest re-proof rejected: " + e)
		}
	}
	// block 2: old files are posted and joined. Blocks 3,4: nothing. Block 5: passing provers prove again
	// (window [5,8) of a file started at 2 with interval 3); young files are posted at block 5.
	// Block 6: a reward block at which everybody is still credited. Block 8: the reward block under test.
	for i := range files {
		if !files[i].young && !files[i].abandoned {
			post(i)
		}
	}
	for h := 3; h <= 5; h++ {
		if bp := env.NextBlock(step); bp != nil {
			cr.Viols = append(cr.Viols, viol("no-panic", "block-panic", "%s", bp.Value))
			return cr
		}
		if h == 4 {
			for i := range files {
				if files[i].abandoned {
					post(i)
				}
			}
		}
	}
	for i := range files {
		if files[i].abandoned {
			continue
		}
		if files[i].young {
			post(i)
			continue
		}
		for _, p := range files[i].list {
			if !files[i].fail[p] {
				prove(i, p)
			}
		}
	}
	if raiseWindow {
		setStorageParams(env, func(p *storagetypes.Params) { p.ProofWindow = 10 })
	}
	for h := 6; h <= 7; h++ {
		if bp := env.NextBlock(step); bp != nil {
			cr.Viols = append(cr.Viols, viol("no-panic", "block-panic", "%s", bp.Value))
			return cr
		}
	}
	// ---- the reward block under test (height 8)
	ctx := env.Ctx()
	before := w.Balances(ctx)
	burnBefore := map[string]int64{}
	for _, p := range c03Provers {
		burnBefore[p], _ = burnOf(w, ctx, p)
	}
	gaugeAccs := map[string]bool{}
	for _, g := range w.App.StorageKeeper.GetAllPaymentGauges(ctx) {
		a, _ := storagetypes.GetGaugeAccount(g)
		gaugeAccs[a.String()] = true
	}
	if bp := env.NextBlock(step); bp != nil {
		cr.Viols = append(cr.Viols, viol("no-panic", "block-panic", "%s", bp.Value))
		return cr
	}
	ctx = env.Ctx()
	if ctx.BlockHeight() != 8 {
		panic("harness: reward block under test is not height 8")
	}
	after := w.Balances(ctx)
	d := world.BalDiff(before, after)
	released := map[string]sdk.Int{"ujkl": sdk.ZeroInt(), "uatom": sdk.ZeroInt(), "utiny": sdk.ZeroInt()}
	for a := range gaugeAccs {
		for dn, v := range d[a] {
			released[dn] = released[dn].Sub(v)
		}
	}
	// reference: who met the obligation for which file
	weight := map[string]sdk.Int{} // prover -> Σ size of files it is counted for (arbitrary precision: sizes may be near 2^63)
	for _, p := range c03Provers {
		weight[p] = sdk.ZeroInt()
	}
	listedBytes, creditedBytes := sdk.ZeroInt(), sdk.ZeroInt()
	failed := map[string]int64{}
	var vs []mc.Viol
	pat := ""
	for i, fl := range files {
		pat += failPattern(fl.list, fl.fail)
		if fl.young {
			pat += "(young)"
		}
		if i < len(files)-1 {
			pat += "|"
		}
		fileAfter, found := getFile(w, ctx, fl.f.merkle, u, starts[i])
		for _, p := range fl.list {
			met := fl.young || !fl.fail[p]
			listedBytes = listedBytes.AddRaw(fl.size)
			if met {
				weight[p] = weight[p].AddRaw(fl.size)
				creditedBytes = creditedBytes.AddRaw(fl.size)
				if !found || !proverListed(fileAfter, w.A(p).Bech) {
					vs = append(vs, viol("counted-prover-stays", "removed", "file %d list %s: %s met its obligation but was removed", i, failDesc(fl.list, fl.fail), p))
				}
			} else {
				failed[p]++
				if found && proverListed(fileAfter, w.A(p).Bech) {
					vs = append(vs, viol("missed-prover-removed", "still-listed", "file %d list %s: %s missed the window but is still listed", i, failDesc(fl.list, fl.fail), p))
				}
			}
		}
	}
	for _, p := range c03Provers {
		b, reg := burnOf(w, ctx, p)
		if reg && b-burnBefore[p] != failed[p] {
			vs = append(vs, viol("burn-counter-rises-by-one-per-missed-file", fmt.Sprintf("delta=%d expected=%d", b-burnBefore[p], failed[p]), "%s: burn counter %d -> %d, missed %d file(s); pattern %s", p, burnBefore[p], b, failed[p], pat))
		}
	}
	// payouts
	okWith := func(D sdk.Int) (bool, string) {
		if D.IsZero() {
			return false, "D=0"
		}
		for _, p := range c03Provers {
			for _, dn := range []string{"ujkl", "uatom", "utiny"} {
				got := deltaOf(d, w.A(p).Bech, dn)
				want := weight[p].ToDec().QuoInt(D).MulInt(released[dn]).TruncateInt()
				diff := got.Sub(want)
				if diff.Abs().GT(sdk.OneInt()) {
					return false, fmt.Sprintf("%s %s: paid %s, share %s/%s of %s = %s", p, dn, got, weight[p], D, released[dn], want)
				}
			}
		}
		return true, ""
	}
	anyWeight := creditedBytes.IsPositive()
	fit := "" // which denominators explain this block's payouts: L (listed bytes), C (credited bytes) - read by c03UniformEnum
	if anyWeight {
		ok1, why1 := okWith(listedBytes)
		ok2, why2 := okWith(creditedBytes)
		if ok1 {
			fit += "L"
		}
		if ok2 {
			fit += "C"
		}
		if !ok1 && !ok2 {
			vs = append(vs, viol("size-weighted-share-once", "payout-mismatch", "lists %s: with D=listed bytes: %s; with D=credited bytes: %s; released %s ujkl %s uatom", pat, why1, why2, released["ujkl"], released["uatom"]))
		}
	}
	for _, dn := range []string{"ujkl", "uatom", "utiny"} {
		paid := sdk.ZeroInt()
		for _, p := range c03Provers {
			v := deltaOf(d, w.A(p).Bech, dn)
			paid = paid.Add(v)
			if weight[p].IsZero() && !v.IsZero() {
				vs = append(vs, viol("uncounted-receive-nothing", "paid", "%s was not counted but its %s balance changed by %s", p, dn, v))
			}
		}
		if paid.GT(released[dn]) {
			vs = append(vs, viol("sum-paid-within-released", "overpaid", "paid %s %s, released %s", paid, dn, released[dn]))
		}
	}
	cr.Nontrivial = len(failed) > 0
	cr.Class = fmt.Sprintf("files=%d failing=%v released=%v fit=%s", len(files), len(failed) > 0, released["ujkl"].IsPositive(), fit)
	cr.Viols = vs
	return cr
}

func c03Enum(thorough bool) mc.Enum {
	e := mc.Enum{Prop: "C03", Name: "C03/reward-block", Cfg: c03Config(true), ConfirmB: true, ConfB: 40}
	bySize := map[int64]*sfile{}
	for _, n := range []int64{1, 7, 12, 1000} {
		bySize[n] = mkFile(seqBytes(int(n), byte(n)), 4)
	}
	fB := mkFile(seqBytes(1000, 50), 4)
	lists := orderedSubsets(c03Provers)
	sizes := []int64{1, 7, 1000}
	regs := []bool{true}
	if thorough {
		regs = []bool{true, false}
		e.ConfB = 400
	}
	for _, reg3 := range regs {
		for _, l := range lists {
			for _, fail := range subsetsOf(l) {
				for _, size := range sizes {
					for _, extra := range []bool{false, true} {
						l, fail, size, extra, reg3 := l, fail, size, extra, reg3
						e.Cases = append(e.Cases, mc.Case{Desc: fmt.Sprintf("one|%s|size=%d|extraGauge=%v|reg3=%v", failDesc(l, fail), size, extra, reg3), Run: func(env world.Env) mc.CaseResult {
							return c03Run(env, []c03File{{f: bySize[size], size: size, list: l, fail: fail}}, extra, reg3)
						}})
						if size == 7 && !extra {
							e.Cases = append(e.Cases, mc.Case{Desc: fmt.Sprintf("one|%s|size=%d|extraGauge=%v|reg3=%v|raiseWindow", failDesc(l, fail), size, extra, reg3), Run: func(env world.Env) mc.CaseResult {
								return c03RunOpt(env, []c03File{{f: bySize[size], size: size, list: l, fail: fail}}, extra, reg3, true)
							}})
							e.Cases = append(e.Cases, mc.Case{Desc: fmt.Sprintf("one|%s|size=%d|extraGauge=%v|reg3=%v|proofType=1", failDesc(l, fail), size, extra, reg3), Run: func(env world.Env) mc.CaseResult {
								return c03Run(env, []c03File{{f: bySize[size], size: size, list: l, fail: fail, proofType: 1}}, extra, reg3)
							}})
							e.Cases = append(e.Cases, mc.Case{Desc: fmt.Sprintf("one|%s|size=%d|extraGauge=%v|reg3=%v|gaugesEnded", failDesc(l, fail), size, extra, reg3), Run: func(env world.Env) mc.CaseResult {
								r := c03RunOpt3(env, []c03File{{f: bySize[size], size: size, list: l, fail: fail}}, extra, reg3, false, false, 11*day)
								if n := len(env.W().App.StorageKeeper.GetAllPaymentGauges(env.Ctx())); n != 0 {
									panic(fmt.Sprintf("harness: %d gauges left although every paid term has run out", n))
								}
								return r
							}})
							e.Cases = append(e.Cases, mc.Case{Desc: fmt.Sprintf("one|%s|size=%d|extraGauge=%v|reg3=%v|atomGauge", failDesc(l, fail), size, extra, reg3), Run: func(env world.Env) mc.CaseResult {
								return c03RunOpt2(env, []c03File{{f: bySize[size], size: size, list: l, fail: fail}}, extra, reg3, false, true)
							}})
						}
					}
				}
			}
			l := l
			e.Cases = append(e.Cases, mc.Case{Desc: fmt.Sprintf("young|%s|reg3=%v", strings.Join(l, ","), reg3), Run: func(env world.Env) mc.CaseResult {
				all := map[string]bool{}
				for _, p := range l {
					all[p] = true
				}
				return c03Run(env, []c03File{{f: bySize[12], size: 12, list: l, fail: all, young: true}}, false, reg3)
			}})
		}
	}
	// sizes near the top of the accepted range: the size sums of a reward block must not wrap around
	hugeFiles := []*sfile{mkFile(seqBytes(8, 71), 4), mkFile(seqBytes(8, 72), 4), mkFile(seqBytes(8, 73), 4)}
	for _, sz := range []int64{1 << 62, 6_400_000_000_000_000_000, 1<<63 - 1} {
		for _, assign := range [][]string{{"P1", "P2", "P2"}, {"P1", "P1", "P2"}, {"P1", "P2", "P3"}, {"P1", "P2"}} {
			sz, assign := sz, assign
			e.Cases = append(e.Cases, mc.Case{Desc: fmt.Sprintf("huge|size=%d|provers=%s", sz, strings.Join(assign, ",")), Run: func(env world.Env) mc.CaseResult {
				var fs []c03File
				for i, p := range assign {
					// sizes beyond the real bytes cannot be re-proven; young files are counted without a second proof
					fs = append(fs, c03File{f: hugeFiles[i], size: sz, list: []string{p}, fail: map[string]bool{}, young: true, payOnce: true})
				}
				return c03Run(env, fs, false, true)
			}})
		}
	}
	// volume: one provider lapses on n files in the same reward block - its burn counter must read n afterwards
	// (a counter that sticks or wraps shows only beyond 127 / 255)
	for _, n := range []int{130, 260} {
		n := n
		e.Cases = append(e.Cases, mc.Case{Desc: fmt.Sprintf("volume|files=%d|one prover missing all", n), Run: func(env world.Env) mc.CaseResult {
			var fs []c03File
			for i := 0; i < n; i++ {
				fs = append(fs, c03File{f: mkFile([]byte{byte(i), byte(i >> 8), 1, 2, 3, 4, 5, 6}, 4), size: 8, list: []string{"P1"}, fail: map[string]bool{"P1": true}})
			}
			return c03Run(env, fs, false, true)
		}})
	}
	abandonedFiles := []*sfile{mkFile(seqBytes(9, 201), 4), mkFile(seqBytes(9, 202), 4), mkFile(seqBytes(9, 203), 4), mkFile(seqBytes(9, 204), 4)}
	// two files
	two := c03Provers[:2]
	if thorough {
		two = c03Provers
	}
	l2 := orderedSubsets(two)
	for _, la := range l2 {
		for _, fa := range subsetsOf(la) {
			for _, lb := range l2 {
				for _, fb := range subsetsOf(lb) {
					la, fa, lb, fb := la, fa, lb, fb
					e.Cases = append(e.Cases, mc.Case{Desc: fmt.Sprintf("two|%s|%s", failDesc(la, fa), failDesc(lb, fb)), Run: func(env world.Env) mc.CaseResult {
						return c03Run(env, []c03File{{f: bySize[7], size: 7, list: la, fail: fa}, {f: fB, size: 1000, list: lb, fail: fb}}, true, true)
					}})
					ab := abandonedFiles[len(e.Cases)%len(abandonedFiles)]
					e.Cases = append(e.Cases, mc.Case{Desc: fmt.Sprintf("two|%s|%s|abandoned=%x", failDesc(la, fa), failDesc(lb, fb), ab.merkle[:2]), Run: func(env world.Env) mc.CaseResult {
						// a third file nobody took up, dropped at the reward block under test (its content varies, so it sorts before, between or after the others)
						return c03Run(env, []c03File{{f: bySize[7], size: 7, list: la, fail: fa}, {f: fB, size: 1000, list: lb, fail: fb}, {f: ab, size: 9, abandoned: true, fail: map[string]bool{}}}, true, true)
					}})
					e.Cases = append(e.Cases, mc.Case{Desc: fmt.Sprintf("two|%s|%s|atomGauge", failDesc(la, fa), failDesc(lb, fb)), Run: func(env world.Env) mc.CaseResult {
						return c03RunOpt2(env, []c03File{{f: bySize[7], size: 7, list: la, fail: fa}, {f: fB, size: 1000, list: lb, fail: fb}}, true, true, false, true)
					}})
				}
			}
		}
	}
	return e
}

// c03UniformEnum (round 12): the statement leaves open whether a share is taken over all listed bytes or over all
// credited bytes, and the per-block oracle accepts either. It does not leave open that the chain uses ONE rule: a
// prover's "size-weighted share" cannot mean one thing in a block with a single counted prover and another in a block
// with two. This single case builds every one-file reward block over {P1,P2,P3} (every ordered list of length >= 2,
// every non-empty proper failing subset, sizes 7 and 1000), each on a fresh branch of the genesis state, notes which
// denominators explain the payouts of that block, and demands that at least one denominator explains all of them.
func c03UniformEnum() mc.Enum {
	e := mc.Enum{Prop: "C03", Name: "C03/denominator-uniformity", Cfg: c03Config(true)}
	e.Cases = append(e.Cases, mc.Case{Desc: "uniform-denominator", Run: func(env world.Env) mc.CaseResult {
		cr := mc.CaseResult{Class: "uniform"}
		fits := map[string]string{} // fit -> first configuration showing it
		n := 0
		for _, l := range orderedSubsets(c03Provers) {
			if len(l) < 2 {
				continue
			}
			for _, fail := range subsetsOf(l) {
				if len(fail) == 0 || len(fail) == len(l) {
					continue
				}
				for _, size := range []int64{7, 1000} {
					f := mkFile(seqBytes(int(size), byte(size)), 4)
					r := c03Run(env.W().NewEnvA(), []c03File{{f: f, size: size, list: l, fail: fail}}, false, true)
					n++
					i := strings.LastIndex(r.Class, "fit=")
					if i < 0 {
						continue
					}
					ft := r.Class[i+4:]
					if _, ok := fits[ft]; !ok {
						fits[ft] = fmt.Sprintf("%s size=%d", failDesc(l, fail), size)
					}
				}
			}
		}
		cr.Count, cr.NontrivialCount, cr.Nontrivial = n, n, true
		_, onlyL := fits["L"]
		_, onlyC := fits["C"]
		if onlyL && onlyC {
			cr.Viols = append(cr.Viols, viol("one-denominator-rule-for-all-reward-blocks", "mixed", "%s", fmt.Sprintf("the payouts of block [%s] are explained only by shares of the listed bytes, those of block [%s] only by shares of the credited bytes: no single size-weighted rule explains both", fits["L"], fits["C"])))
		}
		cr.Class = fmt.Sprintf("uniform fits=%d", len(fits))
		return cr
	}})
	return e
}

func init() {
	CaseReplayers["C03/denominator-uniformity"] = func(r *mc.Run, c string) { r.ReplayCase(c03UniformEnum(), c) }
	CaseReplayers["C03/reward-block"] = func(r *mc.Run, c string) { r.ReplayCase(c03Enum(true), c) }
	Props["C03"] = Prop{Level: "model_checking", Run: func(r *mc.Run, tier string) {
		r.Rules = append(r.Rules, "bounded-exhaustive construction of the state at a reward block through real messages and blocks: every ordering of every non-empty subset of {P1,P2,P3} as prover list x every subset missing the last window x sizes {1,7,1000} x {2,3} gauges (one with two denominations) x young-file variant; one provider lapsing on 130 / 260 files in one reward block; the same with 11-day blocks, so that every payment gauge has run out and been swept before the reward block under test; two files x all list/fail combinations over 2 (thorough: 3) provers; thorough adds an unregistered prover; one cross-block case demanding that a single denominator rule (listed bytes or credited bytes) explains the payouts of all 96 one-file reward blocks with a non-empty proper failing subset. Non-trivial = at least one prover missed the window")
		r.Assumptions = append(r.Assumptions, "the denominator of a share may be all listed bytes or all credited bytes (both size-weighted); one denominator for all provers of a block, and one rule for all blocks, is demanded", "ProofWindow 3, CheckWindow 2, 1-day blocks")
		dl := time.Now().Add(50 * time.Second)
		if tier == "thorough" {
			dl = time.Now().Add(25 * time.Minute)
		}
		r.AddEnum(c03Enum(tier == "thorough"), workers(), dl)
		r.AddEnum(c03UniformEnum(), 1, time.Time{})
	}}
	_ = time.Second
}
