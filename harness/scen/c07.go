package scen

import (
	"bytes"
	"fmt"
	"sort"
	"strconv"
	"strings"
	"time"

	"github.com/cosmos/cosmos-sdk/codec"
	sdk "github.com/cosmos/cosmos-sdk/types"
	"github.com/jackalLabs/canine-chain/v4/app"

	"github.com/jackalLabs/canine-chain/v4/wasmbinding"
	storagetypes "github.com/jackalLabs/canine-chain/v4/x/storage/types"

	"verif/harness/mc"
	"verif/harness/world"
)

// C07 — plan space accounting matches the files actually held.
type C07 struct{ Seeded bool } // Seeded: starts from a pay-once file and a plan-paid file, each with a prover; small alphabet, deeper

var c07Files = map[string]*sfile{"400": mkFile(seqBytes(9, 4), 1024), "600": mkFile(seqBytes(9, 6), 1024), "max": mkFile(seqBytes(9, 9), 1024), "neg": mkFile(seqBytes(9, 3), 1024), "gen": mkFile(seqBytes(9, 5), 1024), "tiny": mkFile(seqBytes(9, 7), 1024)}
var c07Size = map[string]int64{"400": 400_000_000, "600": 600_000_000, "max": 1<<63 - 1, "neg": -400_000_000, "gen": 300_000_000, "tiny": 1_000_000}
var c07Users = []string{"U1", "U2"}

type c07Model struct {
	Blocks, Long, Posts int
	Files               []string // "owner|size|start" ever posted
}

func (m c07Model) Key() []byte { return jkey(m) }

func (C07) ID() string { return "C07" }
func (s C07) Name() string {
	if s.Seeded {
		return "C07/plan-space-seeded"
	}
	return "C07/plan-space"
}
func (s C07) Config() world.Config {
	cfg := world.Config{
		Accounts: []string{"U1", "U2", "P"},
		Storage:  func(p *storagetypes.Params) { p.ProofWindow, p.CheckWindow = 3, 2 },
	}
	if s.Seeded {
		// a file of U1 paid up front long ago whose paid term ends at height 4 (the chain starts at 2): it exists past its
		// term until its owner deletes it or a reward block drops it for having no provers
		cfg.GenesisMod = func(cdc codec.JSONCodec, gs app.GenesisState) {
			var st storagetypes.GenesisState
			cdc.MustUnmarshalJSON(gs[storagetypes.ModuleName], &st)
			st.FileList = append(st.FileList, storagetypes.UnifiedFile{Merkle: c07Files["gen"].merkle, Owner: world.MakeAcct("U1").Bech, Start: 1, Expires: 4,
				FileSize: c07Size["gen"], ProofInterval: 3, ProofType: 0, Proofs: []string{}, MaxProofs: 1, Note: "{}"})
			gs[storagetypes.ModuleName] = cdc.MustMarshalJSON(&st)
		}
	}
	return cfg
}
func (C07) Stores() []string { return []string{"storage", "bank"} }
func (s C07) Init(env world.Env) mc.Model {
	if !s.Seeded {
		return c07Model{}
	}
	w := env.W()
	for _, u := range c07Users {
		a := w.A(u).Bech
		mustOK(env.Deliver(storagetypes.NewMsgBuyStorage(a, a, 30, 1_000_000_000, "ujkl")), "BuyStorage")
	}
	mustOK(env.Deliver(storagetypes.NewMsgInitProvider(w.A("P").Bech, "https://node.holder.com", 1_000_000_000, "kb")), "InitProvider")
	h := env.Ctx().BlockHeight()
	// the pay-once file is the one whose Merkle root sorts first (reward blocks walk the files in that order)
	po, pp := "400", "600"
	if bytes.Compare(c07Files[po].merkle, c07Files[pp].merkle) > 0 {
		po, pp = pp, po
	}
	once := storagetypes.NewMsgPostFile(w.A("U2").Bech, c07Files[po].merkle, c07Size[po], 0, 0, 1, "{}")
	once.Expires = h + 200_000
	mustOK(env.Deliver(once), "pay-once post")
	mustOK(env.Deliver(storagetypes.NewMsgPostFile(w.A("U1").Bech, c07Files[pp].merkle, c07Size[pp], 0, 0, 1, "{}")), "plan-paid post")
	m := c07Model{Posts: 2}
	for _, x := range [][2]string{{"U2", po}, {"U1", pp}} {
		f := c07Files[x[1]]
		item, hl := f.proofFor(0)
		if ok, e := postProofOK(w, env.Deliver(storagetypes.NewMsgPostProof(w.A("P").Bech, f.merkle, w.A(x[0]).Bech, h, item, hl, 0))); !ok {
			panic("seed proof: " + e)
		}
		m.Files = append(m.Files, x[0]+"|"+x[1]+"|"+strconv.FormatInt(h, 10))
	}
	m.Files = append(m.Files, "U1|gen|1")
	sort.Strings(m.Files)
	return m
}

func (s C07) Events(env world.Env, mm mc.Model) []string {
	m := mm.(c07Model)
	var evs []string
	if s.Seeded {
		for _, id := range m.Files {
			fp := strings.Split(id, "|")
			evs = append(evs, "Delete:"+fp[0]+":"+fp[1]+":"+fp[2], "Proof:P:"+id)
		}
		if m.Blocks < 7 {
			evs = append(evs, "NextBlock")
		}
		return evs
	}
	for _, u := range c07Users {
		evs = append(evs, "Buy:"+u+":1", "Buy:"+u+":2")
	}
	evs = append(evs, "BuyFor:U2:U1:2", "BuyFor:U1:U2:1")                                        // one account pays for the other's plan
	evs = append(evs, "BuyX:U1:2500000000:30", "BuyX:U1:1900000000:90", "BuyX:U1:1500000001:60") // sizes that are not whole gigabytes, longer terms
	if m.Posts < 4 {
		for _, u := range c07Users {
			for _, s := range []string{"400", "600"} {
				evs = append(evs, "Post:"+u+":"+s+":1", "Post:"+u+":"+s+":2")
			}
		}
		evs = append(evs, "PostOnce:U1:400:1", "Post:U1:max:1") // the largest size stateless validation accepts
		evs = append(evs, "PostNegExp:U1:400:1")                // Expires = -1 passes stateless validation
		evs = append(evs, "PostPastExp:U1:400:1")               // Expires = 1: positive, but a height that has already passed
		evs = append(evs, "Post:U1:tiny:11", "Post:U1:tiny:25") // a small file with many replicas
		// the same post made by a contract through the chain's wasm binding (U1 standing in for the contract account)
		evs = append(evs, "WasmPost:U1:400:1", "WasmPost:U1:neg:1", "WasmPost:U1:max:2")
	}
	for _, id := range m.Files {
		fp := strings.Split(id, "|")
		evs = append(evs, "Delete:"+fp[0]+":"+fp[1]+":"+fp[2], "Proof:P:"+id)
		for _, o := range c07Users {
			if o != fp[0] {
				evs = append(evs, "Delete:"+o+":"+fp[1]+":"+fp[2])
			}
		}
	}
	if m.Blocks < 5 {
		evs = append(evs, "NextBlock")
	}
	if m.Long < 1 {
		evs = append(evs, "NextBlock31d")
	}
	return evs
}

type c07Snap struct {
	used, avail map[string]int64
	hasPlan     map[string]bool
	live        map[string]bool // plan live at the current block time
	footprint   map[string]int64
	files       []world.KV
}

func c07Snapshot(w *world.World, ctx sdk.Context) c07Snap {
	k := w.App.StorageKeeper
	s := c07Snap{used: map[string]int64{}, avail: map[string]int64{}, hasPlan: map[string]bool{}, live: map[string]bool{}, footprint: map[string]int64{}}
	for _, u := range c07Users {
		a := w.A(u).Bech
		if pi, ok := k.GetStoragePaymentInfo(ctx, a); ok {
			s.hasPlan[u], s.used[u], s.avail[u] = true, pi.SpaceUsed, pi.SpaceAvailable
			s.live[u] = !pi.End.Before(ctx.BlockTime())
		}
		r, err := k.AllFilesByOwner(sdk.WrapSDKContext(ctx), &storagetypes.QueryAllFilesByOwner{Owner: a})
		if err == nil {
			for _, f := range r.Files {
				if f.Expires <= 0 {
					s.footprint[u] += f.FileSize * f.MaxProofs
				}
			}
		}
	}
	return s
}

// wasmPostFile performs the post the way a contract's custom message does: wasmbinding.PerformPostFile on a branch of the
// current state, written back only on success (the wasm module discards the branch of a failed or panicking message).
func wasmPostFile(env world.Env, contract world.Acct, msg *storagetypes.MsgPostFile) (res world.TxResult) {
	env.Mutate(func(ctx sdk.Context) {
		cctx, write := ctx.CacheContext()
		k := env.W().App.StorageKeeper
		defer func() {
			if r := recover(); r != nil {
				res.Err = fmt.Errorf("panic: %v", r)
			}
		}()
		if err := wasmbinding.PerformPostFile(&k, cctx, contract.Addr, msg); err != nil {
			res.Err = err
			return
		}
		write()
	})
	return res
}

func (C07) Apply(env world.Env, mm mc.Model, ev string) mc.Step {
	w := env.W()
	m := mm.(c07Model)
	m.Files = append([]string{}, m.Files...)
	p := split(ev)
	st := mc.Step{Outcome: "rejected"}
	var vs []mc.Viol
	k := w.App.StorageKeeper
	before := c07Snapshot(w, env.Ctx())
	storeBefore := w.DumpStore(env.Ctx(), "storage")
	via := p[0]
	switch p[0] {
	case "NextBlock", "NextBlock31d":
		dt := day
		if p[0] == "NextBlock31d" {
			dt = 31 * day
			m.Long++
		} else {
			m.Blocks++
		}
		if bp := env.NextBlock(dt); bp != nil {
			vs = append(vs, viol("no-panic", "block-panic", "%s", bp.Value))
		}
		st.Outcome = "block"
		via = "block"
	case "BuyX":
		by, _ := strconv.ParseInt(p[2], 10, 64)
		days, _ := strconv.ParseInt(p[3], 10, 64)
		a := w.A(p[1]).Bech
		if env.Deliver(storagetypes.NewMsgBuyStorage(a, a, days, by, "ujkl")).OK() {
			st.Outcome = "ok"
		}
	case "BuyFor":
		gbs, _ := strconv.ParseInt(p[3], 10, 64)
		if env.Deliver(storagetypes.NewMsgBuyStorage(w.A(p[1]).Bech, w.A(p[2]).Bech, 30, gbs*1_000_000_000, "ujkl")).OK() {
			st.Outcome = "ok"
		}
	case "Buy":
		gbs, _ := strconv.ParseInt(p[2], 10, 64)
		a := w.A(p[1]).Bech
		if env.Deliver(storagetypes.NewMsgBuyStorage(a, a, 30, gbs*1_000_000_000, "ujkl")).OK() {
			st.Outcome = "ok"
		}
	case "Post", "PostOnce", "PostNegExp", "PostPastExp", "WasmPost":
		u := p[1]
		f := c07Files[p[2]]
		mp, _ := strconv.ParseInt(p[3], 10, 64)
		h := env.Ctx().BlockHeight()
		msg := storagetypes.NewMsgPostFile(w.A(u).Bech, f.merkle, c07Size[p[2]], 0, 0, mp, "{}")
		if p[0] == "PostOnce" {
			msg.Expires = h + 20_000
		}
		if p[0] == "PostNegExp" {
			msg.Expires = -1
		}
		if p[0] == "PostPastExp" {
			msg.Expires = 1
		}
		// a post at an existing key (same content, owner and block) replaces that file, whose footprint is released
		var replaced int64
		if old, ok := getFile(w, env.Ctx(), f.merkle, w.A(u).Bech, h); ok && old.Expires <= 0 {
			replaced = old.FileSize * old.MaxProofs
		}
		var res world.TxResult
		if p[0] == "WasmPost" {
			res = wasmPostFile(env, w.A(u), msg)
		} else {
			res = env.Deliver(msg)
		}
		m.Posts++
		if p[0] == "Post" || p[0] == "WasmPost" {
			need := c07Size[p[2]] * mp
			mayFit := before.hasPlan[u] && before.live[u] && before.used[u]-replaced+need <= before.avail[u]
			st.Exercised = append(st.Exercised, "plan-paid-post")
			if !before.hasPlan[u] || !before.live[u] {
				st.Exercised = append(st.Exercised, "post-without-live-plan")
			} else if !mayFit {
				st.Exercised = append(st.Exercised, "post-beyond-remaining-space")
			}
			if res.OK() && !mayFit {
				vs = append(vs, viol("post-without-plan-or-space-fails", fmt.Sprintf("accepted plan=%v live=%v", before.hasPlan[u], before.live[u]),
					"%s accepted: plan=%v live=%v used=%d replaced=%d need=%d available=%d", ev, before.hasPlan[u], before.live[u], before.used[u], replaced, need, before.avail[u]))
			}
		}
		if res.OK() {
			st.Outcome = "ok"
			id := u + "|" + p[2] + "|" + strconv.FormatInt(h, 10)
			if !has(m.Files, id) {
				m.Files = append(m.Files, id)
				sort.Strings(m.Files)
			}
		} else if !storeEqual(storeBefore, w.DumpStore(env.Ctx(), "storage")) {
			vs = append(vs, viol("failed-post-leaves-usage-unchanged", "store-changed", "%s failed but changed the storage store", ev))
		}
	case "Delete":
		s, _ := strconv.ParseInt(p[3], 10, 64)
		if env.Deliver(storagetypes.NewMsgDeleteFile(w.A(p[1]).Bech, c07Files[p[2]].merkle, s)).OK() {
			st.Outcome = "ok"
		}
	case "Proof":
		fp := strings.Split(strings.Join(p[2:], "|"), "|")
		s, _ := strconv.ParseInt(fp[2], 10, 64)
		f := c07Files[fp[1]]
		prover := w.A(p[1]).Bech
		owner := w.A(fp[0]).Bech
		c := int64(0)
		pr, listed := k.GetProof(env.Ctx(), prover, f.merkle, owner, s)
		if listed {
			c = pr.ChunkToProve
		}
		if c == 0 { // the declared size exceeds the bytes the harness holds: only chunk 0 can be answered
			item, hl := f.proofFor(0)
			if ok, _ := postProofOK(w, env.Deliver(storagetypes.NewMsgPostProof(prover, f.merkle, owner, s, item, hl, 0))); ok {
				st.Outcome = "ok"
			}
		}
	}
	after := c07Snapshot(w, env.Ctx())
	for _, u := range c07Users {
		dUsed := after.used[u] - before.used[u]
		dFoot := after.footprint[u] - before.footprint[u]
		if after.hasPlan[u] || before.hasPlan[u] {
			st.Exercised = append(st.Exercised, "accounting-step")
			if dFoot < 0 {
				st.Exercised = append(st.Exercised, "file-ceased-to-exist")
			}
			if dUsed != dFoot {
				why := "via=" + via
				switch {
				case dFoot < 0 && dUsed == 0:
					why = "footprint-not-returned via=" + via
				case dFoot == 0 && dUsed > 0 && (p[0] == "Post"):
					why = "same-file-charged-again"
				}
				vs = append(vs, viol("space-used-equals-footprint-of-live-files", why, "%s: used space of %s changed by %d, footprint of its live plan-paid files by %d (used %d, footprint %d, available %d)",
					ev, u, dUsed, dFoot, after.used[u], after.footprint[u], after.avail[u]))
			}
			if after.used[u] < 0 {
				vs = append(vs, viol("space-used-never-negative", "negative", "%s: used %d", u, after.used[u]))
			}
			if after.used[u] > after.avail[u] {
				vs = append(vs, viol("space-used-within-purchased", "over", "%s: used %d > available %d after %s", u, after.used[u], after.avail[u], ev))
			}
		}
	}
	st.Model, st.Viols = m, vs
	return st
}

// c07DropEnum: fixed histories in which several plan-paid files - of one owner, of two owners - are left without
// provers and are dropped together by one reward block (the search reaches one dropped file at most).
func c07DropEnum() mc.Enum {
	nb := rep("NextBlock", 6)
	buy := []string{"Buy:U1:2", "Buy:U2:2"}
	return pathEnum("C07", "C07/drop-paths", C07{}, [][]string{
		cat(buy, []string{"Post:U1:400:1", "Post:U1:600:1"}, nb),
		cat(buy, []string{"Post:U1:400:2", "Post:U1:600:1", "Post:U2:400:1"}, nb),
		cat(buy, []string{"Post:U1:400:1", "Post:U2:400:1", "Post:U1:600:2", "Post:U2:600:1"}, nb),
		cat(buy, []string{"Post:U1:400:1", "NextBlock", "Post:U1:600:1", "Post:U1:400:1"}, nb),
		cat(buy, []string{"Post:U1:400:1", "PostOnce:U1:400:1", "Post:U1:600:1"}, nb),
	})
}

func init() {
	CaseReplayers["C07/drop-paths"] = func(r *mc.Run, c string) { r.ReplayCase(c07DropEnum(), c) }
	regScenario(C07{})
	regScenario(C07{Seeded: true})
	Props["C07"] = Prop{Level: "model_checking", Run: func(r *mc.Run, tier string) {
		r.Rules = append(r.Rules, "BFS over buy/upgrade (1 GB, 2 GB) by 2 accounts, plan-paid posts (0.4/0.6 GB x replication 1,2; the same key twice in a block), a pay-once post, delete by owner and non-owner, a prover joining, NextBlock (1 day; reward blocks drop prover-less old files) and a 31-day block (plan expiry); oracle: delta(SpaceUsed) = delta(footprint of the account's live plan-paid files as listed by AllFilesByOwner), bounds, free-space query, refused posts")
		r.Assumptions = append(r.Assumptions, "at most 4 posts, 5 one-day blocks and one 31-day block per history")
		r.AddExplore(C07{}, opts(tier, 5, 9, 60, 1200, 150, 2000))
		r.Rules = append(r.Rules, "seeded variant: from a pay-once file (whose Merkle root sorts first) and a plan-paid file of another account, each with a prover, BFS over proofs, deletes by the owners and up to 7 one-day blocks (provers lapse, files are dropped)")
		r.AddExplore(C07{Seeded: true}, opts(tier, 9, 12, 30, 300, 40, 300))
		r.Rules = append(r.Rules, "drop paths: 5 fixed histories of 10-12 steps in which two to four plan-paid files of one or two owners are left without provers and dropped together by one reward block, every step judged by the same oracle")
		r.AddEnum(c07DropEnum(), workers(), time.Time{})
	}}
}
