package scen

import (
	"bytes"
	"compress/gzip"
	"fmt"
	"io"
	"reflect"
	"sort"
	"strings"
	"time"

	"github.com/cosmos/cosmos-sdk/codec"
	sdk "github.com/cosmos/cosmos-sdk/types"
	gogoproto "github.com/gogo/protobuf/proto"
	descpb "github.com/gogo/protobuf/protoc-gen-gogo/descriptor"

	"github.com/jackalLabs/canine-chain/v4/app"
	"github.com/jackalLabs/canine-chain/v4/wasmbinding"
	notiftypes "github.com/jackalLabs/canine-chain/v4/x/notifications/types"
	oracletypes "github.com/jackalLabs/canine-chain/v4/x/oracle/types"
	rnstypes "github.com/jackalLabs/canine-chain/v4/x/rns/types"
	storagetypes "github.com/jackalLabs/canine-chain/v4/x/storage/types"

	"verif/harness/mc"
	"verif/harness/world"
)

// C11 — every message is authenticated as its creator and touches only its own resources.

var c11Modules = []string{"storage", "rns", "filetree", "oracle", "notifications", "jklmint"}

// c11ServiceInputs lists the request types of the Msg services in the registered file descriptors.
func c11ServiceInputs() (map[string]bool, error) {
	out := map[string]bool{}
	for _, m := range c11Modules {
		gz := gogoproto.FileDescriptor("canine_chain/" + m + "/tx.proto")
		if gz == nil {
			continue
		}
		zr, err := gzip.NewReader(bytes.NewReader(gz))
		if err != nil {
			return nil, err
		}
		raw, err := io.ReadAll(zr)
		if err != nil {
			return nil, err
		}
		var fd descpb.FileDescriptorProto
		if err := gogoproto.Unmarshal(raw, &fd); err != nil {
			return nil, err
		}
		for _, svc := range fd.Service {
			if svc.GetName() != "Msg" {
				continue
			}
			for _, meth := range svc.Method {
				out["/"+strings.TrimPrefix(meth.GetInputType(), ".")] = true
			}
		}
	}
	return out, nil
}

func c11Config() world.Config {
	return world.Config{Accounts: []string{"a0", "a1", "a2", "a3", "a4", "a5", "a6", "a7", "a8"}}
}

func stringFields(v reflect.Value) []int {
	var idx []int
	t := v.Type()
	for i := 0; i < t.NumField(); i++ {
		if t.Field(i).Type.Kind() == reflect.String {
			idx = append(idx, i)
		}
	}
	return idx
}

// assignments: all permutations for k <= 5, all rotations above
func assignments(k int) [][]int {
	base := make([]int, k)
	for i := range base {
		base[i] = i
	}
	if k <= 5 {
		var out [][]int
		var rec func(cur []int, rest []int)
		rec = func(cur, rest []int) {
			if len(rest) == 0 {
				out = append(out, append([]int{}, cur...))
				return
			}
			for i := range rest {
				nr := append(append([]int{}, rest[:i]...), rest[i+1:]...)
				rec(append(cur, rest[i]), nr)
			}
		}
		rec(nil, base)
		return out
	}
	var out [][]int
	for r := 0; r < k; r++ {
		p := make([]int, k)
		for i := range p {
			p[i] = (i + r) % k
		}
		out = append(out, p)
	}
	return out
}

func c11NewMsg(w *world.World, url string) (sdk.Msg, error) {
	pm, err := w.App.InterfaceRegistry.Resolve(url)
	if err != nil {
		return nil, err
	}
	m, ok := pm.(sdk.Msg)
	if !ok {
		return nil, fmt.Errorf("%s is not an sdk.Msg", url)
	}
	return m, nil
}

// c11ValidInstance builds an instance that passes ValidateBasic: creator = c, every other address-like field = o.
func c11ValidInstance(w *world.World, url, c, o string) (sdk.Msg, error) {
	m, err := c11NewMsg(w, url)
	if err != nil {
		return nil, err
	}
	v := reflect.ValueOf(m).Elem()
	t := v.Type()
	for i := 0; i < t.NumField(); i++ {
		f := v.Field(i)
		name := t.Field(i).Name
		switch f.Kind() {
		case reflect.String:
			switch name {
			case "Creator":
				f.SetString(c)
			case "Name":
				f.SetString("alpha.jkl")
			case "Ip":
				f.SetString("https://node.example.com")
			case "Contents", "Note", "Data":
				f.SetString("{}")
			case "PaymentDenom":
				f.SetString("ujkl")
			default:
				f.SetString(o)
			}
		case reflect.Int64:
			f.SetInt(1)
		case reflect.Slice:
			if f.Type().Elem().Kind() == reflect.Uint8 {
				f.SetBytes([]byte{1, 2, 3})
			} else if f.Type().Elem().Kind() == reflect.String {
				f.Set(reflect.ValueOf([]string{o}))
			}
		case reflect.Struct:
			if f.Type() == reflect.TypeOf(sdk.Coin{}) {
				f.Set(reflect.ValueOf(sdk.NewInt64Coin("ujkl", 5)))
			}
		}
	}
	if err := m.ValidateBasic(); err != nil {
		return nil, fmt.Errorf("cannot build a ValidateBasic-valid %s: %v", url, err)
	}
	return m, nil
}

// part 1 + 2
func c11Signers(r *mc.Run, tier string) {
	w := world.New(c11Config())
	var urls []string
	for _, u := range w.App.InterfaceRegistry.ListImplementations("cosmos.base.v1beta1.Msg") {
		if strings.HasPrefix(u, "/canine_chain.") {
			urls = append(urls, u)
		}
	}
	sort.Strings(urls)
	svc, err := c11ServiceInputs()
	if err != nil {
		r.Harness = append(r.Harness, "cannot read service descriptors: "+err.Error())
		return
	}
	report := func(clause, sig, detail, c string) {
		r.Report(mc.Record{Property: "C11", Scenario: "C11/signers", Kind: "case", Clause: clause, Signature: clause + ":" + sig, Detail: detail, Case: c})
	}
	for u := range svc {
		found := false
		for _, x := range urls {
			if x == u {
				found = true
			}
		}
		if !found {
			report("every-service-request-is-a-registered-msg", "unregistered "+u, u+" is a Msg service request type but is not registered as sdk.Msg", u)
		}
	}
	for _, x := range urls {
		if !svc[x] {
			report("every-service-request-is-a-registered-msg", "no-service "+x, x+" is registered as sdk.Msg but no Msg service method takes it", x)
		}
	}
	addrs := []string{}
	for _, n := range c11Config().Accounts {
		addrs = append(addrs, w.A(n).Bech)
	}
	evals, distinct := 0, 0
	for _, u := range urls {
		m, err := c11NewMsg(w, u)
		if err != nil {
			report("routable", "unresolvable "+u, err.Error(), u)
			continue
		}
		v := reflect.ValueOf(m).Elem()
		cf := v.FieldByName("Creator")
		if !cf.IsValid() || cf.Kind() != reflect.String {
			report("exactly-one-signature-of-the-creator", "no-creator-field "+u, "message has no string field Creator", u)
			continue
		}
		if w.App.MsgServiceRouter().Handler(m) == nil {
			report("routable", "no-handler "+u, "MsgServiceRouter has no handler", u)
		}
		sf := stringFields(v)
		for _, perm := range assignments(len(sf)) {
			for i, fi := range sf {
				v.Field(fi).SetString(addrs[perm[i]])
			}
			evals++
			var signers []sdk.AccAddress
			var pan interface{}
			func() {
				defer func() { pan = recover() }()
				signers = m.GetSigners()
			}()
			want := cf.String()
			if pan != nil || len(signers) != 1 || signers[0].String() != want {
				got := []string{}
				for _, s := range signers {
					got = append(got, w.NameOf(s.String()))
				}
				report("exactly-one-signature-of-the-creator", "signers≠[creator] "+u, fmt.Sprintf("%s with creator %s: GetSigners = %v (panic %v)", u, w.NameOf(want), got, pan), u)
				break
			}
		}
		distinct++
	}
	r.Evaluations += evals
	r.Transitions += evals
	r.States += distinct
	r.Nontrivial += distinct
	r.Samples = append(r.Samples, map[string]interface{}{"part": "signer-binding", "message_types": urls})
	r.Sub = append(r.Sub, map[string]interface{}{"part": "signer-binding", "message_types": len(urls), "service_request_types": len(svc), "field_assignments_checked": evals})
	r.Printf("[C11] signer binding: %d message types (%d in service descriptors), %d field assignments\n", len(urls), len(svc), evals)

	// part 2: signature enforcement through the real ante handler and DeliverTx
	env := w.NewEnvB()
	creator, other, extra := w.A("a0"), w.A("a1"), w.A("a2")
	stores := []string{"storage", "rns", "filetree", "oracle", notiftypes.StoreKey, "jklmint", "bank", "acc"}
	hash := func() [32]byte { return w.HashStores(env.Ctx(), stores, nil) }
	sigErr := func(res world.TxResult) bool {
		l := res.Log
		return strings.Contains(l, "signature verification failed") || strings.Contains(l, "pubKey does not match signer") ||
			strings.Contains(l, "wrong number of signers") || strings.Contains(l, "account sequence mismatch") || strings.Contains(l, "no signatures supplied")
	}
	delivered, valid := 0, 0
	for _, u := range urls {
		m, err := c11ValidInstance(w, u, creator.Bech, other.Bech)
		if err != nil {
			r.Harness = append(r.Harness, err.Error())
			continue
		}
		valid++
		// (b) signed by the account named in another field
		h0 := hash()
		res := env.DeliverSigned([]sdk.Msg{m}, []world.Acct{other})
		delivered++
		if res.OK() || !sigErr(res) || hash() != h0 {
			report("exactly-one-signature-of-the-creator", "accepted-with-another-accounts-signature "+u, fmt.Sprintf("%s signed by a non-creator: code=%d log=%q stateChanged=%v", u, res.Code, res.Log, hash() != h0), u)
		}
		// (c) creator + an extra signer
		h0 = hash()
		res = env.DeliverSigned([]sdk.Msg{m}, []world.Acct{creator, extra})
		delivered++
		if res.OK() || !sigErr(res) || hash() != h0 {
			report("exactly-one-signature-of-the-creator", "accepted-with-extra-signature "+u, fmt.Sprintf("%s signed by creator + another: code=%d log=%q", u, res.Code, res.Log), u)
		}
		// (a) signed by the creator: must pass authentication, whatever the handler then says
		res = env.DeliverSigned([]sdk.Msg{m}, []world.Acct{creator})
		delivered++
		if sigErr(res) {
			report("exactly-one-signature-of-the-creator", "creator-signature-rejected "+u, fmt.Sprintf("%s signed by its creator: code=%d log=%q", u, res.Code, res.Log), u)
		}
	}
	r.Traces += delivered
	r.Evaluations += delivered
	r.Sub = append(r.Sub, map[string]interface{}{"part": "signature-enforcement-seamB", "types_with_valid_instance": valid, "signed_transactions_delivered": delivered})
	r.Printf("[C11] signature enforcement: %d types, %d signed transactions delivered through ante+DeliverTx\n", valid, delivered)

	// wasm binding: a contract can post storage files only in its own name
	ea := world.New(c11Config()).NewEnvA()
	w2 := ea.W()
	contract := w2.A("a3")
	mustOK(ea.Deliver(storagetypes.NewMsgBuyStorage(contract.Bech, contract.Bech, 30, 1_000_000_000, "ujkl")), "plan for contract")
	mustOK(ea.Deliver(storagetypes.NewMsgBuyStorage(w2.A("a4").Bech, w2.A("a4").Bech, 30, 1_000_000_000, "ujkl")), "plan for other")
	for _, who := range []string{"a3", "a4"} {
		before := w2.DumpStore(ea.Ctx(), "storage")
		msg := storagetypes.NewMsgPostFile(w2.A(who).Bech, c01F1.merkle, 12, 0, 0, 1, "{}")
		k := w2.App.StorageKeeper
		cctx, write := ea.Ctx().CacheContext()
		err := wasmbinding.PerformPostFile(&k, cctx, contract.Addr, msg)
		if err == nil {
			write()
		}
		changed := !storeEqual(before, w2.DumpStore(ea.Ctx(), "storage"))
		r.Evaluations++
		if who == "a3" && err != nil {
			report("contract-posts-only-in-its-own-name", "own-name-rejected", fmt.Sprintf("contract posting as itself failed: %v", err), "wasm")
		}
		if who == "a4" && (err == nil || changed) {
			report("contract-posts-only-in-its-own-name", "foreign-name-accepted", fmt.Sprintf("contract posted in the name of another account: err=%v changed=%v", err, changed), "wasm")
		}
	}
}

// ---------------------------------------------------------------------------------------------
// part 3: resource isolation

type C11Iso struct{}

type c11Model struct {
	Blocks int
	Start  int64
	NotifT int64
}

func (m c11Model) Key() []byte { return jkey(m) }

func (C11Iso) ID() string   { return "C11" }
func (C11Iso) Name() string { return "C11/isolation" }
func (C11Iso) Config() world.Config {
	return world.Config{
		// the last account is an ordinary account whose address string happens to end in "jkl" (one in 32768 does)
		Accounts: []string{"O", "N", "X", "C1", world.MineAcctName("NJ", "jkl")},
		Storage:  func(p *storagetypes.Params) { p.CollateralPrice = 1000; p.ProofWindow, p.CheckWindow = 50, 100 },
		GenesisMod: func(cdc codec.JSONCodec, gs app.GenesisState) { // a name of O that expired long ago (records stay in the store)
			var g rnstypes.GenesisState
			cdc.MustUnmarshalJSON(gs[rnstypes.ModuleName], &g)
			g.NamesList = append(g.NamesList, rnstypes.Names{Name: "lapsed", Tld: "jkl", Expires: 1, Value: world.MakeAcct("O").Bech, Data: "{}", Subdomains: []*rnstypes.Names{}})
			gs[rnstypes.ModuleName] = cdc.MustMarshalJSON(&g)
		},
	}
}
func (C11Iso) Stores() []string {
	return []string{"storage", "oracle", notiftypes.StoreKey, "rns", "bank"}
}
func (C11Iso) Init(env world.Env) mc.Model {
	w := env.W()
	o, x := w.A("O").Bech, w.A("X").Bech
	mustOK(env.Deliver(storagetypes.NewMsgInitProvider(o, "https://owner.example.com", 1000, "kbO")), "init O")
	mustOK(env.Deliver(storagetypes.NewMsgAddClaimer(o, w.A("C1").Bech)), "claimer")
	mustOK(env.Deliver(oracletypes.NewMsgCreateFeed(o, "feedO")), "feed")
	mustOK(env.Deliver(oracletypes.NewMsgUpdateFeed(o, "feedO", `{"price":"1"}`)), "feed data")
	t := env.Ctx().BlockTime().UnixMicro()
	mustOK(env.Deliver(notiftypes.NewMsgCreateNotification(x, o, `{"hi":1}`, nil)), "notify O")
	mustOK(env.Deliver(notiftypes.NewMsgBlockSenders(o, w.A("C1").Bech)), "block")
	mustOK(env.Deliver(rnstypes.NewMsgRegisterName(o, "owner.jkl", 1, "{}", true)), "name")
	mustOK(env.Deliver(storagetypes.NewMsgBuyStorage(o, o, 30, 1_000_000_000, "ujkl")), "plan")
	start := env.Ctx().BlockHeight()
	mustOK(env.Deliver(storagetypes.NewMsgPostFile(o, c01F1.merkle, 12, 0, 0, 1, "{}")), "file")
	// O also holds the name spelled like that account's address with a dot in the fourth-last place
	nj := w.A(world.MineAcctName("NJ", "jkl")).Bech
	mustOK(env.Deliver(rnstypes.NewMsgRegisterName(o, nj[:len(nj)-4]+".jkl", 1, "{}", false)), "name shaped like an address")
	// a prover holds O's file: its proof record (keyed by prover, content, owner O and start) is part of O's deal
	item, hl := c01F1.proofFor(0)
	if ok, e := postProofOK(w, env.Deliver(storagetypes.NewMsgPostProof(x, c01F1.merkle, o, start, item, hl, 0))); !ok {
		panic("seed proof: " + e)
	}
	return c11Model{Start: start, NotifT: t}
}

// identifiers of O's resources in whitespace / case / separator variants, for messages that name a resource
var c11FeedVariants = []string{"feedO ", " feedO", "FEEDO", "feedO/", "feedO\n"}

var c11IsoKinds = []string{"SetIP", "SetKeybase", "SetSpace", "AddClaimer", "RemoveClaimer", "Shutdown", "InitProvider", "UpdateFeedO", "CreateFeedOwn", "UpdateFeedOwn",
	"DeleteNotif", "BlockSenders", "MakePrimary", "MakePrimaryLapsed", "MakePrimaryCaps", "DeleteFile", "RegisterOwnName"}

func (C11Iso) Events(env world.Env, mm mc.Model) []string {
	var evs []string
	for _, who := range []string{"N", "O"} {
		for _, k := range c11IsoKinds {
			evs = append(evs, k+":"+who)
		}
	}
	for i := range c11FeedVariants {
		evs = append(evs, fmt.Sprintf("CreateFeedVariant:N:%d", i), fmt.Sprintf("UpdateFeedVariant:N:%d", i))
	}
	evs = append(evs, "DeleteNotifVariant:N:0", "DeleteNotifVariant:N:1", "DeleteNotifVariant:N:2", "DeleteFileVariant:N")
	// O points its primary name at a name of N (the chain accepts that); N then hands that name over to O: the transfer
	// is N's to make, O's primary-name entry is not N's to change
	evs = append(evs, "MakePrimaryOther:O", "TransferOwnName:N")
	// C1, whom O has blocked, writes to O - by address and by O's name: O's inbox is O's, and O has shut C1 out of it
	evs = append(evs, "NotifyO:C1", "NotifyOByName:C1")
	evs = append(evs, "AddRecordToN:O", "DelRecordOfO:N") // O adds a record under its name that points at N; N is not the name's owner
	evs = append(evs, "AddClaimerC1:N")    // N (once it is a provider) authorises the very claimer O has authorised, and may revoke it again - for itself
	evs = append(evs, "UpdateFeedOSame:N") // N re-submits exactly the value O's feed already holds
	evs = append(evs, "PostSameFile:N")    // N posts the same content as O (in O's posting block: same content and start, other owner)
	nj := world.MineAcctName("NJ", "jkl")  // the account whose address ends in "jkl" acts in its own name
	evs = append(evs, "BlockSenders:"+nj)
	if mm.(c11Model).Blocks < 1 {
		evs = append(evs, "NextBlock")
	}
	return evs
}

// ownedBy: the records of the scenario stores that belong to the account.
func c11Owned(w *world.World, ctx sdk.Context, who string, feed string) map[string]string {
	out := map[string]string{}
	addr := w.A(who).Bech
	for _, s := range []string{"storage", notiftypes.StoreKey} {
		for _, kv := range w.DumpStore(ctx, s) {
			if bytes.Contains(kv.K, []byte(addr)) {
				out[s+"/"+string(kv.K)] = string(kv.V)
			}
		}
	}
	for _, kv := range w.DumpStore(ctx, "oracle") {
		// the feed the account created: the record stored under exactly that name, or any record naming it as owner
		var f oracletypes.Feed
		owned := w.Cdc().Unmarshal(kv.V, &f) == nil && f.Owner == addr
		if owned || string(kv.K) == "Feed/value/"+feed+"/" {
			out["oracle/"+string(kv.K)] = string(kv.V)
		}
	}
	for _, kv := range w.DumpStore(ctx, "rns") {
		if bytes.Contains(kv.K, []byte(addr)) || bytes.Contains(kv.V, []byte(addr)) {
			out["rns/"+string(kv.K)] = string(kv.V)
		}
	}
	return out
}

func (C11Iso) Apply(env world.Env, mm mc.Model, ev string) mc.Step {
	w := env.W()
	m := mm.(c11Model)
	p := split(ev)
	st := mc.Step{Outcome: "rejected"}
	if p[0] == "NextBlock" {
		if bp := env.NextBlock(6 * time.Second); bp != nil {
			st.Viols = append(st.Viols, viol("no-panic", "block-panic", "%s", bp.Value))
		}
		m.Blocks++
		st.Model, st.Outcome = m, "block"
		return st
	}
	who := w.A(p[1]).Bech
	o := w.A("O").Bech
	var msg sdk.Msg
	switch p[0] {
	case "SetIP":
		msg = storagetypes.NewMsgSetProviderIP(who, "https://changed-by-"+strings.ToLower(p[1])+".example.com")
	case "SetKeybase":
		msg = storagetypes.NewMsgSetProviderKeybase(who, "kb-"+p[1])
	case "SetSpace":
		msg = storagetypes.NewMsgSetProviderTotalSpace(who, 777)
	case "AddClaimer":
		msg = storagetypes.NewMsgAddClaimer(who, w.A("X").Bech)
	case "AddRecordToN":
		msg = rnstypes.NewMsgAddRecord(who, "owner.jkl", "pay", w.A("N").Bech, "{}")
	case "DelRecordOfO":
		msg = rnstypes.NewMsgDelRecord(who, "pay.owner.jkl")
	case "AddClaimerC1":
		msg = storagetypes.NewMsgAddClaimer(who, w.A("C1").Bech)
	case "RemoveClaimer":
		msg = storagetypes.NewMsgRemoveClaimer(who, w.A("C1").Bech)
	case "Shutdown":
		msg = storagetypes.NewMsgShutdownProvider(who)
	case "InitProvider":
		msg = storagetypes.NewMsgInitProvider(who, "https://"+strings.ToLower(p[1])+".example.org", 5, "kb")
	case "UpdateFeedO":
		msg = oracletypes.NewMsgUpdateFeed(who, "feedO", `{"price":"by-`+p[1]+`"}`)
	case "CreateFeedOwn":
		msg = oracletypes.NewMsgCreateFeed(who, "feed"+p[1])
	case "UpdateFeedOwn":
		msg = oracletypes.NewMsgUpdateFeed(who, "feed"+p[1], `{"price":"2"}`)
	case "DeleteNotif":
		msg = notiftypes.NewMsgDeleteNotification(who, w.A("X").Bech, m.NotifT)
	case "BlockSenders":
		msg = notiftypes.NewMsgBlockSenders(who, w.A("X").Bech)
	case "NotifyO":
		msg = notiftypes.NewMsgCreateNotification(who, o, `{"from":"`+p[1]+`"}`, nil)
	case "NotifyOByName":
		msg = notiftypes.NewMsgCreateNotification(who, "owner.jkl", `{"from":"`+p[1]+`"}`, nil)
	case "MakePrimary":
		mp := rnstypes.NewMsgMakePrimary("owner.jkl")
		mp.Creator = who
		msg = mp
	case "MakePrimaryLapsed":
		mp := rnstypes.NewMsgMakePrimary("lapsed.jkl")
		mp.Creator = who
		msg = mp
	case "MakePrimaryCaps":
		mp := rnstypes.NewMsgMakePrimary("Lapsed.JKL")
		mp.Creator = who
		msg = mp
	case "DeleteFile":
		msg = storagetypes.NewMsgDeleteFile(who, c01F1.merkle, m.Start)
	case "UpdateFeedOSame":
		msg = oracletypes.NewMsgUpdateFeed(who, "feedO", `{"price":"1"}`)
	case "PostSameFile":
		pm := storagetypes.NewMsgPostFile(who, append([]byte{}, c01F1.merkle...), 12, 0, 0, 1, "{}")
		pm.Expires = env.Ctx().BlockHeight() + 20_000 // paid up front: N needs no plan
		msg = pm
	case "CreateFeedVariant":
		var i int
		fmt.Sscan(p[2], &i)
		msg = oracletypes.NewMsgCreateFeed(who, c11FeedVariants[i])
	case "UpdateFeedVariant":
		var i int
		fmt.Sscan(p[2], &i)
		msg = oracletypes.NewMsgUpdateFeed(who, c11FeedVariants[i], `{"price":"variant"}`)
	case "DeleteNotifVariant":
		from := w.A("X").Bech + " "
		switch p[2] {
		case "1":
			from = o + "/" + w.A("X").Bech // tries to reach into O's key space
		case "2":
			from = "../" + o + "/" + w.A("X").Bech // the same with a path step back out of the signer's own key space
		case "3":
			from = "./" + w.A("X").Bech + "/../../" + o + "/" + w.A("X").Bech
		}
		msg = notiftypes.NewMsgDeleteNotification(who, from, m.NotifT)
	case "DeleteFileVariant":
		msg = storagetypes.NewMsgDeleteFile(who, append([]byte{}, c01F1.merkle...), m.Start+0)
	case "RegisterOwnName":
		msg = rnstypes.NewMsgRegisterName(who, strings.ToLower(p[1])+"name.jkl", 1, "{}", false)
	case "MakePrimaryOther":
		mp := rnstypes.NewMsgMakePrimary("nname.jkl")
		mp.Creator = who
		msg = mp
	case "TransferOwnName":
		msg = rnstypes.NewMsgTransfer(who, strings.ToLower(p[1])+"name.jkl", o)
	}
	before := c11Owned(w, env.Ctx(), "O", "feedO")
	res := env.Deliver(msg)
	after := c11Owned(w, env.Ctx(), "O", "feedO")
	if res.OK() {
		st.Outcome = "ok"
	}
	if p[1] != "O" { // every signer other than O
		st.Exercised = append(st.Exercised, "non-owner-message")
		var diff []string
		for k, v := range before {
			if a, ok := after[k]; !ok {
				diff = append(diff, "-"+k)
			} else if a != v {
				diff = append(diff, "~"+k)
			}
		}
		for k := range after {
			if _, ok := before[k]; !ok {
				diff = append(diff, "+"+k)
			}
		}
		if p[0] == "TransferOwnName" { // the name record itself passes to O: that is what the signer asked for
			var rest []string
			for _, x := range diff {
				if !strings.HasPrefix(x[1:], "rns/Names/") {
					rest = append(rest, x)
				}
			}
			diff = rest
		}
		sort.Strings(diff)
		if len(diff) > 0 {
			st.Viols = append(st.Viols, viol("affects-only-the-creators-own-resource", p[0], "%s signed by %s changed records belonging to O: %v", ev, p[1], diff))
		}
		_ = o
	}
	st.Model = m
	return st
}

func init() {
	regScenario(C11Iso{})
	CaseReplayers["C11/signers"] = func(r *mc.Run, c string) { c11Signers(r, "quick") }
	Props["C11"] = Prop{Level: "model_checking", Run: func(r *mc.Run, tier string) {
		r.Rules = append(r.Rules, "(1) every message type registered for the custom modules (cross-checked against the Msg services of the registered file descriptors): every assignment of distinct valid addresses to its string fields (all permutations for <=5 fields, all rotations above): GetSigners = [creator], handler routable; (2) for every type three signed transactions through the real ante handler and DeliverTx: signed by another field's account (must be rejected, state unchanged), creator+extra signer (rejected), creator (must authenticate); (3) BFS over owner-only messages replayed by a non-owner N and by the owner O on a state where O owns a provider record, a feed, an inbox entry, a block list, a primary name and a storage file: N's messages leave every record of O byte-identical (N handing one of its own names to O after O pointed its primary name at it included: only the name record may change; an account O has blocked writing to O by address and by O's name included); (4) wasm binding PerformPostFile with creator = contract / another account")
		r.Assumptions = append(r.Assumptions, "records 'belonging to O' = keys or values containing O's address in storage/notification/rns stores, and the feed O created")
		c11Signers(r, tier)
		r.AddExplore(C11Iso{}, opts(tier, 4, 7, 60, 900, 100, 1000))
	}}
}
