package mc

import (
	"fmt"
	"runtime/debug"
	"strings"
	"sync"
	"sync/atomic"
	"time"

	"verif/harness/world"
)

// Case is one element of an exhaustively enumerated input/schedule space, executed on a fresh branch of the
// scenario's start state (seam A) and, for confirmation, on a fresh node through ABCI (seam B).
type Case struct {
	Desc string
	Run  func(env world.Env) CaseResult
	// Grouped form (Run == nil): Prep runs once on a fork of the start state, then every Sub runs on its own
	// fork of the prepared state. At seam B one (case, sub) pair is one fresh node: Setup, Prep, Sub.
	Prep func(env world.Env)
	Subs []string
	Sub  func(env world.Env, sub string) CaseResult
}

type CaseResult struct {
	Viols           []Viol
	Nontrivial      bool   // by the enumeration's stated rule
	Class           string // outcome class, for the distinct-outcome statistics
	Count           int    // evaluations performed inside this case (default 1)
	NontrivialCount int    // non-trivial evaluations inside this case (default: 1 if Nontrivial)
}

// Enum describes an enumeration bound to a world configuration.
type Enum struct {
	Prop     string
	Name     string
	Cfg      world.Config
	Setup    func(env world.Env) // optional common prefix executed once per world (seam A) / per case (seam B)
	Cases    []Case
	ConfirmB bool // reproduce violations at seam B before reporting (needs cases that only use Env)
	ConfB    int  // additionally run this many evenly spaced cases at seam B and compare their outcome class
}

type enumFound struct {
	v    Viol
	desc string
	idx  int
	n    int
	sub  string
}

// AddEnum runs all cases (in parallel over worker-local worlds) and merges the result.
func (r *Run) AddEnum(e Enum, workers int, deadline time.Time) {
	t0 := time.Now()
	if workers < 1 {
		workers = 1
	}
	if workers > len(e.Cases) {
		workers = maxInt(1, len(e.Cases))
	}
	var next int64 = -1
	var wg sync.WaitGroup
	var mu sync.Mutex
	found := map[string]*enumFound{}
	classes := map[string]int{}
	evals, nontriv := 0, 0
	timedOut := false
	var herr []string
	classOf := make([]string, len(e.Cases))
	subClass := map[string]string{}
	for wi := 0; wi < workers; wi++ {
		wg.Add(1)
		go func() {
			defer wg.Done()
			w := world.New(e.Cfg)
			base := w.NewEnvA()
			if e.Setup != nil {
				e.Setup(base)
			}
			for {
				if !deadline.IsZero() && time.Now().After(deadline) {
					mu.Lock()
					timedOut = true
					mu.Unlock()
					return
				}
				i := int(atomic.AddInt64(&next, 1))
				if i >= len(e.Cases) {
					return
				}
				c := e.Cases[i]
				var cr CaseResult
				func() {
					defer func() {
						if x := recover(); x != nil {
							mu.Lock()
							herr = append(herr, fmt.Sprintf("panic in harness case %s: %v\n%s", c.Desc, x, debug.Stack()))
							mu.Unlock()
						}
					}()
					if c.Run != nil {
						cr = c.Run(base.Fork())
						return
					}
					pe := base.Fork()
					if c.Prep != nil {
						c.Prep(pe)
					}
					cr.Class = "group"
					for _, sub := range c.Subs {
						r := c.Sub(pe.Fork(), sub)
						cr.Count++
						if r.Nontrivial {
							cr.NontrivialCount++
						}
						mu.Lock()
						subClass[c.Desc+"##"+sub] = r.Class
						classes[r.Class]++
						mu.Unlock()
						for _, v := range r.Viols {
							v.Sub = sub
							cr.Viols = append(cr.Viols, v)
						}
					}
				}()
				mu.Lock()
				if cr.Count > 0 {
					evals += cr.Count
					nontriv += cr.NontrivialCount
				} else {
					evals++
					if cr.Nontrivial {
						nontriv++
					}
				}
				if c.Run != nil {
					classes[cr.Class]++
				}
				classOf[i] = cr.Class
				for _, v := range cr.Viols {
					f, ok := found[v.Sig]
					if !ok || i < f.idx {
						n := 0
						if ok {
							n = f.n
						}
						found[v.Sig] = &enumFound{v: v, desc: c.Desc, idx: i, n: n + 1, sub: v.Sub}
					} else {
						f.n++
					}
				}
				mu.Unlock()
			}
		}()
	}
	wg.Wait()
	// seam-B conformance on evenly spaced cases: same outcome class and same violations
	confOK := 0
	if e.ConfB > 0 && !timedOut {
		k := e.ConfB
		if k > len(e.Cases) {
			k = len(e.Cases)
		}
		type res struct{ msg string }
		out := make([]string, k)
		sem := make(chan struct{}, workers)
		var wg2 sync.WaitGroup
		for j := 0; j < k; j++ {
			i := j * len(e.Cases) / k
			wg2.Add(1)
			sem <- struct{}{}
			go func(j, i int) {
				defer wg2.Done()
				defer func() { <-sem }()
				c := e.Cases[i]
				sub, want := "", classOf[i]
				if c.Run == nil {
					if len(c.Subs) == 0 {
						return
					}
					sub = c.Subs[(j*7919)%len(c.Subs)]
					want = subClass[c.Desc+"##"+sub]
				}
				cr, err := e.runB(c, sub)
				if err != nil {
					out[j] = fmt.Sprintf("case %s %s: seam B error %v", c.Desc, sub, err)
				} else if cr.Class != want {
					out[j] = fmt.Sprintf("case %s %s: outcome class at seam A %q, at seam B %q", c.Desc, sub, want, cr.Class)
				}
			}(j, i)
		}
		wg2.Wait()
		for _, m := range out {
			if m == "" {
				confOK++
			} else {
				r.Harness = append(r.Harness, "HARNESS-DIVERGENCE "+m)
			}
		}
	}
	r.Harness = append(r.Harness, herr...)
	r.Evaluations += evals
	r.Nontrivial += nontriv
	r.Transitions += evals
	r.States += len(classes)
	r.Traces += confOK
	if timedOut {
		r.Exhaustive = false
	}
	for i := 0; i < len(e.Cases) && i < 3; i++ {
		if len(r.Samples) < 8 {
			r.Samples = append(r.Samples, map[string]interface{}{"enumeration": e.Name, "case": e.Cases[i*len(e.Cases)/3].Desc})
		}
	}
	r.Sub = append(r.Sub, map[string]interface{}{"enumeration": e.Name, "cases": len(e.Cases), "evaluated": evals, "nontrivial": nontriv,
		"outcome_classes": classes, "seamB_conformance_cases": confOK, "complete": !timedOut, "wall_s": time.Since(t0).Seconds(),
		"distinct_violation_signatures": len(found)})
	r.Printf("[%s] %s: cases=%d evaluated=%d nontrivial=%d classes=%d confB=%d sigs=%d complete=%v wall=%.1fs\n", r.Prop, e.Name, len(e.Cases), evals, nontriv,
		len(classes), confOK, len(found), !timedOut, time.Since(t0).Seconds())
	for _, sig := range world.SortedKeys(found) {
		f := found[sig]
		if e.ConfirmB {
			cr, err := e.runB(e.Cases[f.idx], f.sub)
			if err != nil {
				r.Harness = append(r.Harness, fmt.Sprintf("HARNESS-DIVERGENCE seam B error for case %s: %v", f.desc, err))
				continue
			}
			ok := false
			for _, v := range cr.Viols {
				if v.Sig == sig {
					ok = true
				}
			}
			if !ok {
				r.Harness = append(r.Harness, fmt.Sprintf("HARNESS-DIVERGENCE violation %q of case %s does not reproduce at seam B", sig, f.desc))
				continue
			}
		}
		desc := f.desc
		if f.sub != "" {
			desc += "##" + f.sub
		}
		r.Report(Record{Property: e.Prop, Scenario: e.Name, Kind: "case", Clause: f.v.Clause, Signature: sig, Detail: f.v.Detail, Case: desc})
	}
}

func (e Enum) runB(c Case, sub string) (cr CaseResult, err error) {
	defer func() {
		if x := recover(); x != nil {
			err = fmt.Errorf("panic: %v\n%s", x, debug.Stack())
		}
	}()
	w := world.New(e.Cfg)
	env := w.NewEnvB()
	if e.Setup != nil {
		e.Setup(env)
	}
	if c.Run != nil {
		return c.Run(env), nil
	}
	if c.Prep != nil {
		c.Prep(env)
	}
	return c.Sub(env, sub), nil
}

// ReplayCase re-runs the case with the given description at both seams and reports what it observes.
func (r *Run) ReplayCase(e Enum, desc string) {
	sub := ""
	if i := strings.Index(desc, "##"); i >= 0 {
		desc, sub = desc[:i], desc[i+2:]
	}
	for _, c := range e.Cases {
		if c.Desc != desc {
			continue
		}
		w := world.New(e.Cfg)
		base := w.NewEnvA()
		if e.Setup != nil {
			e.Setup(base)
		}
		var cr CaseResult
		if c.Run != nil {
			cr = c.Run(base.Fork())
		} else {
			pe := base.Fork()
			if c.Prep != nil {
				c.Prep(pe)
			}
			cr = c.Sub(pe, sub)
		}
		var crb CaseResult
		if e.ConfirmB {
			var err error
			crb, err = e.runB(c, sub)
			if err != nil {
				r.Harness = append(r.Harness, err.Error())
				return
			}
		}
		for _, v := range cr.Viols {
			ok := !e.ConfirmB
			for _, vb := range crb.Viols {
				if vb.Sig == v.Sig {
					ok = true
				}
			}
			if ok {
				full := desc
				if sub != "" {
					full += "##" + sub
				}
				r.Report(Record{Property: e.Prop, Scenario: e.Name, Kind: "case", Clause: v.Clause, Signature: v.Sig, Detail: v.Detail, Case: full})
			}
		}
		return
	}
	r.Harness = append(r.Harness, "no such case: "+desc)
}
