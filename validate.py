#!/usr/bin/env python3-vt
import json,jsonschema,glob,sys
ok=True
try:
    jsonschema.validate(json.load(open('/verif/MANIFEST.json')),json.load(open('/root/.vp/MANIFEST.schema.json')))
except Exception as e:
    print("MANIFEST invalid:",e); ok=False
es=json.load(open('/root/.vp/EVIDENCE.schema.json'))
for f in sorted(glob.glob('/verif/evidence/*.json')):
    try: jsonschema.validate(json.load(open(f)),es)
    except Exception as e:
        print(f,"invalid:",str(e)[:300]); ok=False
print("valid" if ok else "INVALID")
sys.exit(0 if ok else 1)
