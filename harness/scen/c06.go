package scen

import (
	"fmt"
	"strings"

	sdk "github.com/cosmos/cosmos-sdk/types"

	fttypes "github.com/jackalLabs/canine-chain/v4/x/filetree/types"
	notiftypes "github.com/jackalLabs/canine-chain/v4/x/notifications/types"
	rnstypes "github.com/jackalLabs/canine-chain/v4/x/rns/types"
	storagetypes "github.com/jackalLabs/canine-chain/v4/x/storage/types"

	"verif/harness/mc"
	"verif/harness/world"
)

// C06Mix is the history generator of the determinism check: a start state that populates every iterator and map on
// a consensus path (3 provers credited in the same reward block over 2 files and 2 gauges, open attestation and
// report forms, a file-tree entry with 3 viewers and 3 editors, names with bids and a listing, notifications and a
// block list) and an alphabet of message templates touching each of them.
type C06Mix struct{}

var (
	c06FA    = mkFile(seqBytes(12, 11), 4)
	c06FB    = mkFile(seqBytes(9, 12), 4)
	c06FOnce = mkFile(seqBytes(8, 13), 4)
)

type c06Model struct {
	Blocks int
	StartA int64
}

func (m c06Model) Key() []byte { return jkey(m) }

func (C06Mix) ID() string   { return "C06" }
func (C06Mix) Name() string { return "C06/mix" }
func (C06Mix) Config() world.Config {
	return world.Config{
		Accounts: []string{"U1", "U2", "P1", "P2", "P3"},
		Storage: func(p *storagetypes.Params) {
			p.ChunkSize, p.ProofWindow, p.CheckWindow = 4, 3, 2
			p.AttestFormSize, p.AttestMinToPass = 2, 2
			p.CollateralPrice = 1000
		},
	}
}
func (C06Mix) Stores() []string {
	return []string{"storage", "rns", "filetree", notiftypes.StoreKey, "bank"}
}

func (C06Mix) Init(env world.Env) mc.Model {
	w := env.W()
	u1, u2 := w.A("U1").Bech, w.A("U2").Bech
	for i, p := range []string{"P1", "P2", "P3"} {
		mustOK(env.Deliver(storagetypes.NewMsgInitProvider(w.A(p).Bech, fmt.Sprintf("https://n.domain%d.com", i+1), 1000, "kb")), "init")
	}
	mustOK(env.Deliver(storagetypes.NewMsgBuyStorage(u1, u1, 30, 1000_000_000_000, "ujkl")), "buy1")
	mustOK(env.Deliver(storagetypes.NewMsgBuyStorage(u2, u2, 60, 2000_000_000_000, "ujkl")), "buy2")
	start := env.Ctx().BlockHeight()
	mustOK(env.Deliver(storagetypes.NewMsgPostFile(u1, c06FA.merkle, 12, 0, 0, 3, "{}")), "postA")
	mustOK(env.Deliver(storagetypes.NewMsgPostFile(u2, c06FB.merkle, 9, 0, 0, 3, "{}")), "postB")
	join := func(f *sfile, owner string, order []string) {
		for _, p := range order {
			item, hl := f.proofFor(0)
			if ok, e := postProofOK(w, env.Deliver(storagetypes.NewMsgPostProof(w.A(p).Bech, f.merkle, owner, start, item, hl, 0))); !ok {
				panic(e)
			}
		}
	}
	join(c06FA, u1, []string{"P3", "P1", "P2"})
	join(c06FB, u2, []string{"P2", "P3", "P1"})
	mustOK(env.Deliver(storagetypes.NewMsgRequestAttestationForm(w.A("P1").Bech, c06FA.merkle, u1, start)), "attreq")
	mustOK(env.Deliver(storagetypes.NewMsgRequestReportForm(u2, w.A("P2").Bech, c06FB.merkle, u2, start)), "repreq")
	acc := func(f func(tr, bech string) string) string {
		m := map[string]string{}
		for _, x := range []string{"U1", "U2", "P1"} {
			m[f(c10Track, w.A(x).Bech)] = "key-" + x
		}
		return jmap(m)
	}
	mustOK(env.Deliver(fttypes.NewMsgProvisionFileTree(u1, acc(ftEditorID), acc(ftViewerID), c10Track)), "provision")
	mustOK(env.Deliver(rnstypes.NewMsgRegisterName(u1, "aaa.jkl", 1, "{}", true)), "reg aaa")
	mustOK(env.Deliver(rnstypes.NewMsgRegisterName(u1, "bbb.jkl", 1, "{}", false)), "reg bbb")
	mustOK(env.Deliver(rnstypes.NewMsgBid(u2, "aaa.jkl", sdk.NewInt64Coin("ujkl", 7))), "bid")
	mustOK(env.Deliver(rnstypes.NewMsgBid(w.A("P1").Bech, "aaa.jkl", sdk.NewInt64Coin("ujkl", 9))), "bid")
	mustOK(env.Deliver(rnstypes.NewMsgList(u1, "bbb.jkl", sdk.NewInt64Coin("ujkl", 11))), "list")
	mustOK(env.Deliver(notiftypes.NewMsgCreateNotification(u2, u1, `{"n":1}`, nil)), "notify")
	mustOK(env.Deliver(notiftypes.NewMsgCreateNotification(w.A("P1").Bech, u1, `{"n":2}`, nil)), "notify")
	mustOK(env.Deliver(notiftypes.NewMsgBlockSenders(u1, w.A("P2").Bech)), "block")
	return c06Model{StartA: start}
}

var c06Templates = []string{
	"Proof:P1:A", "Proof:P2:A", "Proof:P3:B", "Attest:P2", "Attest:P3", "Report:P1", "Report:P3",
	"AddViewers", "RemoveEditors", "ResetViewers", "Bid", "AcceptBid", "Buy", "Notify", "BuyStorage", "DeleteA", "PostOnce", "ProofBroken:P3:B", "RnsInit:U2", "RnsInit:P3", "ProvisionEmpty", "NextBlock",
}

func (C06Mix) Events(env world.Env, mm mc.Model) []string {
	m := mm.(c06Model)
	var evs []string
	for _, t := range c06Templates {
		if t == "NextBlock" && m.Blocks >= 4 {
			continue
		}
		evs = append(evs, t)
	}
	return evs
}

func (C06Mix) Apply(env world.Env, mm mc.Model, ev string) mc.Step {
	w := env.W()
	m := mm.(c06Model)
	st := mc.Step{Outcome: "rejected"}
	p := split(ev)
	u1, u2 := w.A("U1").Bech, w.A("U2").Bech
	root := ftMerkle("s")
	rootOwner := ftOwner(root, ftAcct(u1))
	var msg sdk.Msg
	switch p[0] {
	case "NextBlock":
		if bp := env.NextBlock(day); bp != nil {
			st.Viols = append(st.Viols, viol("no-panic", "block-panic", "%s", bp.Value))
		}
		m.Blocks++
		st.Model, st.Outcome = m, "block"
		return st
	case "Proof", "ProofBroken":
		f, owner := c06FA, u1
		if p[2] == "B" {
			f, owner = c06FB, u2
		}
		prover := w.A(p[1]).Bech
		c := int64(0)
		if pr, ok := w.App.StorageKeeper.GetProof(env.Ctx(), prover, f.merkle, owner, m.StartA); ok {
			c = pr.ChunkToProve
		}
		item, hl := f.proofFor(int(c))
		if p[0] == "ProofBroken" {
			hl = []byte("{not a hash list") // undecodable: the transaction is committed with Success=false
		}
		msg = storagetypes.NewMsgPostProof(prover, f.merkle, owner, m.StartA, item, hl, c)
	case "Attest":
		msg = storagetypes.NewMsgAttest(w.A(p[1]).Bech, w.A("P1").Bech, c06FA.merkle, u1, m.StartA)
	case "Report":
		msg = storagetypes.NewMsgReport(w.A(p[1]).Bech, w.A("P2").Bech, c06FB.merkle, u2, m.StartA)
	case "AddViewers":
		ids := []string{ftViewerID(c10Track, w.A("P2").Bech), ftViewerID(c10Track, w.A("P3").Bech)}
		msg = fttypes.NewMsgAddViewers(u1, strings.Join(ids, ","), "k2,k3", root, rootOwner)
	case "RemoveEditors":
		msg = fttypes.NewMsgRemoveEditors(u1, ftEditorID(c10Track, u2)+","+ftEditorID(c10Track, w.A("P1").Bech), root, rootOwner)
	case "ResetViewers":
		msg = fttypes.NewMsgResetViewers(u1, root, rootOwner)
	case "Bid":
		msg = rnstypes.NewMsgBid(w.A("P2").Bech, "bbb.jkl", sdk.NewInt64Coin("ujkl", 4))
	case "AcceptBid":
		msg = rnstypes.NewMsgAcceptBid(u1, "aaa.jkl", u2)
	case "Buy":
		msg = rnstypes.NewMsgBuy(u2, "bbb.jkl")
	case "Notify":
		msg = notiftypes.NewMsgCreateNotification(w.A("P3").Bech, "aaa.jkl", `{"n":3}`, nil)
	case "BuyStorage":
		msg = storagetypes.NewMsgBuyStorage(u2, u2, 90, 3000_000_000_000, "ujkl")
	case "DeleteA":
		msg = storagetypes.NewMsgDeleteFile(u1, c06FA.merkle, m.StartA)
	case "ProvisionEmpty": // a second account provisions its file tree with an access map that is well-formed JSON but empty
		msg = fttypes.NewMsgProvisionFileTree(u2, "{}", "null", c10Track)
	case "RnsInit": // the free-name message; a second one in the same block meets a starter name that is taken
		msg = rnstypes.NewMsgInit(w.A(p[1]).Bech)
	case "PostOnce": // a one-time-payment file for 100 days: its gauge ends on a calendar date (January -> April)
		pm := storagetypes.NewMsgPostFile(u2, c06FOnce.merkle, 5_000_000, 0, 0, 2, "{}")
		pm.Expires = env.Ctx().BlockHeight() + 14400*100
		msg = pm
	}
	if env.Deliver(msg).OK() {
		st.Outcome = "ok"
	}
	st.Model = m
	return st
}

// C06History is one history of the determinism check.
type C06History struct {
	Sc   mc.Scenario
	Path []string
}

// C06Skipped lists the scenarios that could not contribute histories (see C06Histories).
var C06Skipped []string

// C06Histories: every path of the mix scenario's search tree up to the suffix bound, each extended by two
// one-day blocks (so that it ends in a reward block), plus search-tree paths of the other properties' scenarios.
func C06Histories(tier string) []C06History {
	var out []C06History
	depth, k, other := 2, 520, 25
	if tier == "thorough" {
		depth, k, other = 3, 11200, 300
	}
	// the failure path of the proof system: nobody proves again, so that reward blocks strike provers off, burn their
	// contracts and drop the files - 9 blocks after nothing or one template
	long := [][]string{{}, {"Proof:P1:A"}, {"Proof:P3:B"}, {"DeleteA"}, {"Report:P1"}, {"PostOnce"}}
	if tier == "thorough" {
		long = [][]string{{}}
		for _, t := range c06Templates {
			long = append(long, []string{t})
		}
	}
	for _, p := range long {
		h := append([]string{}, p...)
		for i := 0; i < 9; i++ {
			h = append(h, "NextBlock")
		}
		out = append(out, C06History{C06Mix{}, h})
	}
	// every sequence of templates up to the suffix depth - not only the search-tree paths: a transaction that leaves the
	// stored state unchanged (a rejected proof, say) may still leave something in the process
	var seqs [][]string
	// breadth first: all of length 1 before length 2, ...
	for d := 0; d <= depth; d++ {
		var level func(cur []string)
		level = func(cur []string) {
			if len(cur) == d {
				if len(seqs) < k {
					seqs = append(seqs, append([]string{}, cur...))
				}
				return
			}
			for _, t := range c06Templates {
				level(append(append([]string{}, cur...), t))
			}
		}
		level(nil)
	}
	for _, p := range seqs {
		out = append(out, C06History{C06Mix{}, append(append([]string{}, p...), "NextBlock", "NextBlock")})
	}
	for _, sc := range []mc.Scenario{C17{}, C01{}, RNS{Prop: "C09"}, C10{}, C18{}, C14{Size: 3, Min: 2}, C07{}} {
		func() {
			// a scenario whose own set-up assertions fail on the tree under check contributes no histories (its own
			// property's check reports why); the determinism check goes on with the others
			defer func() {
				if r := recover(); r != nil {
					C06Skipped = append(C06Skipped, fmt.Sprintf("%s: %v", sc.Name(), r))
				}
			}()
			paths := mc.TreePaths(sc, 4, other)
			for i, p := range paths {
				if i%3 == 0 || len(p) >= 3 { // prefer the deeper ones
					out = append(out, C06History{sc, p})
				}
			}
		}()
	}
	return out
}

func init() {
	regScenario(C06Mix{})
}
