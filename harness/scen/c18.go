package scen

import (
	"fmt"
	"sort"
	"strconv"
	"strings"
	"time"

	"github.com/cosmos/btcutil/bech32"
	"github.com/cosmos/cosmos-sdk/codec"
	sdk "github.com/cosmos/cosmos-sdk/types"

	"github.com/jackalLabs/canine-chain/v4/app"
	notiftypes "github.com/jackalLabs/canine-chain/v4/x/notifications/types"
	rnstypes "github.com/jackalLabs/canine-chain/v4/x/rns/types"

	"verif/harness/mc"
	"verif/harness/world"
)

// C18 — an inbox lists exactly the notifications sent to it, not blocked and not deleted.
type C18 struct{}

const c18Name = "bob.jkl"

type c18Model struct {
	Blocks    int
	NameOwner string                         // principal bob.jkl resolves to, per the harness' record of transfers
	Inbox     map[string]map[string][]string // principal -> "from|time" -> contents sent under that identity, in order
	Blocked   map[string]map[string]bool     // principal -> blocked principal
	Restarted bool                           // the module was restarted from its exported genesis
	Stale     []string                       // "blocker>blocked" pairs whose block predates the restart
}

func (m c18Model) Key() []byte { return jkey(m) }
func (m c18Model) clone() c18Model {
	n := c18Model{Blocks: m.Blocks, NameOwner: m.NameOwner, Inbox: map[string]map[string][]string{}, Blocked: map[string]map[string]bool{}, Restarted: m.Restarted, Stale: append([]string{}, m.Stale...)}
	for a, in := range m.Inbox {
		n.Inbox[a] = map[string][]string{}
		for k, v := range in {
			n.Inbox[a][k] = append([]string{}, v...)
		}
	}
	for a, b := range m.Blocked {
		n.Blocked[a] = map[string]bool{}
		for k, v := range b {
			n.Blocked[a][k] = v
		}
	}
	return n
}

var c18Who = []string{"A", "B", "C"}

// c18LongAddr builds a valid 32-byte account address whose bech32 spelling begins with the complete spelling (data and
// checksum characters) of the given 20-byte address: two different recipients, one a string prefix of the other.
func c18LongAddr(short string) string {
	const charset = "qpzry9x8gf2tvdw0s3jn54khce6mua7l"
	i := strings.LastIndex(short, "1")
	var groups []byte
	for _, ch := range short[i+1:] {
		groups = append(groups, byte(strings.IndexRune(charset, ch)))
	}
	for len(groups) < 52 { // 52 groups of 5 bits = 32 bytes and 4 zero padding bits
		groups = append(groups, 0)
	}
	bz, err := bech32.ConvertBits(groups, 5, 8, false)
	if err != nil || len(bz) != 32 {
		panic(fmt.Sprintf("c18LongAddr: %v (%d bytes)", err, len(bz)))
	}
	long := sdk.AccAddress(bz).String()
	if !strings.HasPrefix(long, short) || long == short {
		panic("c18LongAddr: " + long + " does not extend " + short)
	}
	return long
}

func (C18) ID() string   { return "C18" }
func (C18) Name() string { return "C18/inbox" }
func (C18) Config() world.Config {
	return world.Config{
		Accounts: c18Who,
		GenesisMod: func(cdc codec.JSONCodec, gs app.GenesisState) {
			var g rnstypes.GenesisState
			cdc.MustUnmarshalJSON(gs[rnstypes.ModuleName], &g)
			g.NamesList = append(g.NamesList, rnstypes.Names{Name: "bob", Tld: "jkl", Expires: 50_000_000, Value: world.MakeAcct("B").Bech, Data: "{}", Subdomains: []*rnstypes.Names{}})
			gs[rnstypes.ModuleName] = cdc.MustMarshalJSON(&g)
		},
	}
}
func (C18) Stores() []string { return []string{notiftypes.StoreKey, "rns"} }
func (C18) Init(env world.Env) mc.Model {
	m := c18Model{NameOwner: "B", Inbox: map[string]map[string][]string{}, Blocked: map[string]map[string]bool{}}
	for _, x := range append(append([]string{}, c18Who...), "longA") {
		m.Inbox[x] = map[string][]string{}
		m.Blocked[x] = map[string]bool{}
	}
	return m
}

func (C18) Events(env world.Env, mm mc.Model) []string {
	m := mm.(c18Model)
	var evs []string
	add := func(f string, a ...interface{}) { evs = append(evs, fmt.Sprintf(f, a...)) }
	targets := []string{"A", "B", "C", "name"}
	for _, x := range c18Who {
		for _, t := range targets {
			add("Send:%s:%s:c1", x, t)
			add("Send:%s:%s:c2", x, t)
		}
	}
	evs = append(evs, "Send:B:A:a<b&&c>d", "Send:C:name:a<b&&c>d") // contents with characters that JSON/HTML encoders like to rewrite
	// a 32-byte recipient whose address string starts with A's address string
	evs = append(evs, "Send:B:longA:c1", "Send:C:longA:c2")
	// the sender spells its own (valid bech32) address in capitals
	for _, x := range c18Who {
		for _, t := range []string{"A", "B", "C"} {
			add("SendUpper:%s:%s:c1", x, t)
		}
	}
	for _, x := range c18Who {
		for _, t := range targets {
			add("Block:%s:%s", x, t)
		}
		add("Block:%s:%s", x, strings.Join(others(x), "+"))
		add("BlockUpper:%s:%s", x, others(x)[0]) // the blocker spells its own address in capitals
	}
	// deletes: every existing (from, time) identity, tried by every principal, plus crafted sender strings
	ids := map[string]bool{}
	for _, x := range c18Who {
		for id := range m.Inbox[x] {
			ids[id] = true
		}
	}
	for _, id := range world.SortedKeys(ids) {
		ft := strings.Split(id, "|")
		for _, x := range c18Who {
			add("Delete:%s:%s:%s", x, ft[0], ft[1])
			for _, y := range others(x) {
				add("DeleteCrafted:%s:%s:%s:%s", x, y, ft[0], ft[1]) // from = "<y's address>/<from>"
				add("DeleteStepped:%s:%s:%s:%s", x, y, ft[0], ft[1]) // from = "../<y's address>/<from>"
			}
		}
	}
	for _, x := range c18Who {
		for _, y := range others(x) { // never-sent identities with an unset or negative time; time 0 is also the key shape of a block record
			add("Delete:%s:%s:%d", x, y, 0)
		}
		add("Delete:%s:%s:%d", x, others(x)[0], -1)
		// times at which nothing was received but whose digits begin (or extend) those of a received time
		for _, id := range world.SortedKeys(m.Inbox[x]) {
			ft := strings.Split(id, "|")
			t, _ := strconv.ParseInt(ft[1], 10, 64)
			for _, u := range []int64{t / 10, t / 1_000_000, t * 10, 1} {
				if _, real := m.Inbox[x][ft[0]+"|"+strconv.FormatInt(u, 10)]; !real {
					add("Delete:%s:%s:%d", x, ft[0], u)
				}
			}
		}
	}
	for _, y := range others(m.NameOwner) {
		add("TransferName:%s:%s", m.NameOwner, y)
	}
	add("TransferName:%s:%s", others(m.NameOwner)[0], others(m.NameOwner)[1]) // by a non-owner
	if m.Blocks < 3 {
		add("NextBlock")
		add("NextBlock300ms") // block times carry fractions of a second
	}
	if !m.Restarted {
		for _, x := range c18Who {
			if len(m.Inbox[x]) > 0 || len(m.Blocked[x]) > 0 {
				add("Restart") // the module restarts from its own exported genesis
				break
			}
		}
	}
	return evs
}

func (C18) Apply(env world.Env, mm mc.Model, ev string) mc.Step {
	w := env.W()
	m := mm.(c18Model).clone()
	p := split(ev)
	st := mc.Step{Outcome: "rejected"}
	var vs []mc.Viol
	resolve := func(t string) string {
		if t == "name" {
			return m.NameOwner
		}
		return t
	}
	target := func(t string) string {
		if t == "name" {
			return c18Name
		}
		if t == "longA" {
			return c18LongAddr(w.A("A").Bech)
		}
		return w.A(t).Bech
	}
	switch p[0] {
	case "NextBlock", "NextBlock300ms":
		dt := 6 * time.Second
		if p[0] == "NextBlock300ms" {
			dt = 300 * time.Millisecond
		}
		if bp := env.NextBlock(dt); bp != nil {
			vs = append(vs, viol("no-panic", "block-panic", "%s", bp.Value))
		}
		m.Blocks++
		st.Outcome = "block"
	case "Send", "SendUpper":
		sender, to := p[1], resolve(p[2])
		contents := `{"msg":"` + p[3] + `"}`
		now := env.Ctx().BlockTime().UnixMicro()
		from := w.A(sender).Bech
		if p[0] == "SendUpper" {
			from = strings.ToUpper(from)
		}
		res := env.Deliver(notiftypes.NewMsgCreateNotification(from, target(p[2]), contents, nil))
		expect := !m.Blocked[to][sender]
		st.Exercised = append(st.Exercised, "send")
		if !expect {
			st.Exercised = append(st.Exercised, "send-while-blocked")
		}
		if res.OK() != expect {
			sig := fmt.Sprintf("accepted=%v blocked=%v", res.OK(), !expect)
			if res.OK() && has(m.Stale, to+">"+sender) {
				sig += " block-predates-a-restart"
			}
			vs = append(vs, viol("blocked-sender-cannot-deliver", sig, "%s: err=%v", ev, res.Err))
		}
		if res.OK() {
			st.Outcome = "ok"
			// the sender is an account: the spelling of its address (capitals are valid bech32) does not matter
			id := sender + "|" + strconv.FormatInt(now, 10)
			m.Inbox[to][id] = append(m.Inbox[to][id], contents)
		}
	case "Block", "BlockUpper":
		var list []string
		for _, t := range strings.Split(p[2], "+") {
			list = append(list, target(t))
		}
		blocker := w.A(p[1]).Bech
		if p[0] == "BlockUpper" {
			blocker = strings.ToUpper(blocker)
		}
		res := env.Deliver(notiftypes.NewMsgBlockSenders(blocker, list...))
		st.Exercised = append(st.Exercised, "block")
		if res.OK() {
			st.Outcome = "ok"
			for _, t := range strings.Split(p[2], "+") {
				m.Blocked[p[1]][resolve(t)] = true
				m.Stale = setDiff(m.Stale, []string{p[1] + ">" + resolve(t)}) // blocked again after the restart
			}
		} else {
			vs = append(vs, viol("block-accepted", "rejected", "%s: err=%v", ev, res.Err))
		}
	case "Delete", "DeleteCrafted", "DeleteStepped":
		x := p[1]
		var from, id string
		var t int64
		if p[0] == "Delete" {
			from = w.A(p[2]).Bech
			t, _ = strconv.ParseInt(p[3], 10, 64)
			id = p[2] + "|" + p[3]
		} else {
			from = w.A(p[2]).Bech + "/" + w.A(p[3]).Bech
			if p[0] == "DeleteStepped" {
				from = "../" + from
			}
			t, _ = strconv.ParseInt(p[4], 10, 64)
		}
		res := env.Deliver(notiftypes.NewMsgDeleteNotification(w.A(x).Bech, from, t))
		if res.OK() {
			st.Outcome = "noop"
			if p[0] == "Delete" {
				if _, ok := m.Inbox[x][id]; ok {
					delete(m.Inbox[x], id)
					st.Outcome = "ok"
					st.Exercised = append(st.Exercised, "delete-own")
				} else {
					st.Exercised = append(st.Exercised, "delete-not-own")
				}
			}
		}
	case "Restart":
		if err := restartModule(env, "notifications"); err != nil {
			vs = append(vs, viol("inbox-lists-exactly-what-was-sent", "restart-failed", "export -> import of the notifications module failed: %v", err))
		}
		m.Restarted = true
		st.Outcome = "ok"
		st.Exercised = append(st.Exercised, "restart")
		for _, x := range c18Who {
			for y := range m.Blocked[x] {
				m.Stale = append(m.Stale, x+">"+y)
			}
		}
		sort.Strings(m.Stale)
	case "TransferName":
		res := env.Deliver(rnstypes.NewMsgTransfer(w.A(p[1]).Bech, c18Name, w.A(p[2]).Bech))
		if res.OK() != (p[1] == m.NameOwner) {
			vs = append(vs, viol("harness-name-model", "transfer", "transfer %s accepted=%v but the model owner is %s", ev, res.OK(), m.NameOwner))
		}
		if res.OK() {
			st.Outcome = "ok"
			m.NameOwner = p[2]
		}
	}
	// the observable: every inbox, through the gRPC query, against the reference inbox
	k := w.App.NotificationsKeeper
	for _, x := range c18Who {
		resp, err := k.AllNotificationsByAddress(sdk.WrapSDKContext(env.Ctx()), &notiftypes.QueryAllNotificationsByAddress{To: w.A(x).Bech})
		if err != nil {
			vs = append(vs, viol("inbox-query", "error", "query for %s failed: %v", x, err))
			continue
		}
		// a second send with the same (sender, time) identity may replace the first or be listed next to it
		// (unspecified): the last contents must be listed, earlier ones may be
		got := map[string][]string{}
		for _, n := range resp.Notifications {
			from := w.NameOf(n.From)
			if lower := strings.ToLower(n.From); lower != n.From && strings.ToUpper(n.From) == n.From {
				from = w.NameOf(lower)
			}
			if w.NameOf(n.To) != x {
				vs = append(vs, viol("inbox-lists-exactly-what-was-sent", "foreign-recipient via="+p[0], "inbox of %s lists an entry addressed to %s", x, w.NameOf(n.To)))
			}
			id := from + "|" + strconv.FormatInt(n.Time, 10)
			got[id] = append(got[id], n.Contents)
		}
		var extra, missing []string
		for id, sent := range m.Inbox[x] {
			g := got[id]
			if !has(g, sent[len(sent)-1]) {
				missing = append(missing, fmt.Sprintf("to=%s from|time=%s contents=%s", x, id, sent[len(sent)-1]))
			}
			for _, c := range g {
				if !has(sent, c) {
					extra = append(extra, fmt.Sprintf("to=%s from|time=%s contents=%s", x, id, c))
				}
			}
		}
		for id, g := range got {
			if _, ok := m.Inbox[x][id]; !ok {
				extra = append(extra, fmt.Sprintf("to=%s from|time=%s contents=%v", x, id, g))
			}
		}
		sort.Strings(extra)
		sort.Strings(missing)
		if len(extra)+len(missing) > 0 {
			sig := ""
			if len(extra) > 0 {
				sig = "extra-entry via=" + p[0]
				if strings.Contains(extra[0], "|0 contents=[]") {
					sig = "extra-entry block-record-listed-as-notification"
				}
			} else {
				sig = "missing-entry via=" + p[0]
			}
			vs = append(vs, viol("inbox-lists-exactly-what-was-sent", sig, "after %s inbox of %s: extra %v, missing %v", ev, x, extra, missing))
		}
	}
	st.Model, st.Viols = m, vs
	return st
}

func setDiff(a, b []string) []string {
	in := map[string]bool{}
	for _, x := range b {
		in[x] = true
	}
	var out []string
	for _, x := range a {
		if !in[x] {
			out = append(out, x)
		}
	}
	return out
}

func init() {
	regScenario(C18{})
	Props["C18"] = Prop{Level: "model_checking", Run: func(r *mc.Run, tier string) {
		r.Rules = append(r.Rules, "BFS over create (3 senders x {A,B,C,bob.jkl} x 2 contents), delete of every existing (from,time) identity by every principal incl. crafted '/'-containing senders, block-senders (address, name, list), transfer of the name, NextBlock, one restart of the module from its own exported genesis; after every event every inbox is read through AllNotificationsByAddress and compared entry by entry with a reference inbox")
		r.Assumptions = append(r.Assumptions, "identity of a notification is (recipient, sender, time): a second send with identical identity replaces the entry (not enforced as a violation)", "3 principals, 1 name, <=3 block boundaries")
		r.AddExplore(C18{}, opts(tier, 4, 6, 70, 1500, 200, 3000))
	}}
}
