#!/usr/bin/env python3
"""Regenerates /verif/MANIFEST.json from the table below (kept in one place so it stays valid)."""
import json

MC = "model_checking"
EX = "exploration"

# id -> (level, text, note, technique, design_ref)
CHECKS = {
 "C01": (MC, "Explicit-state BFS over the real PostProof/attest/reward-block handlers from a posted file: every payload kind (valid for the challenged chunk, other chunk, foreign file, broken, truncated) by 3 accounts, block-gas choices and block boundaries, every transition checked against a reference of who has validly proven; conformance replay and reproduction through signed ABCI blocks.",
         "Bounds: 3 provers, one 3-chunk file with replication 2, depth bound reported in evidence; SHA-256/SHA3 collision freedom.", "explicit-state model checking of the real handlers (BFS, canonical store hash)", "DESIGN.md §4 C01"),
 "C03": (MC, "Bounded-exhaustive construction of the configuration at a reward block through real messages and blocks (every ordering of every subset of 3 provers x every failing subset x sizes x gauges x 1-2 files), oracle on removals, burn counters and per-denomination payouts; violations reproduced through signed ABCI blocks.",
         "Share denominator may be listed or credited bytes; ProofWindow 3 / CheckWindow 2.", "exhaustive enumeration of reward-block configurations on the real code", "DESIGN.md §4 C03"),
 "C08": (MC, "BFS over 91 name-service events per state by 3 accounts on 2 names (one expiring inside the horizon); every transition checked: a live name changes owner only by its owner's transfer/accept or a purchase through the owner's own listing, with full payment to the previous owner.",
         "3 principals, 2 names, height == Expires unspecified; depth bound in evidence.", "explicit-state model checking of the real handlers", "DESIGN.md §4 C08"),
 "C09": (MC, "BFS over bid/cancel/accept/register/list/buy/transfer with repeated bids in two denominations; every transition checked for delta(module balance) = delta(sum of open bids) and exact refunds/payouts against an escrow reference model.",
         "3 principals, 2 names, 3 bid values.", "explicit-state model checking of the real handlers", "DESIGN.md §4 C09"),
 "C10": (MC, "BFS from a seeded tree over all file-tree messages by owner/editor/viewer/stranger including crafted separator-containing fields; the whole Files store after every transition must equal a harness-computed functional reference and unauthorised messages must fail.",
         "4 principals, 4 paths; SHA-256 collision freedom.", "explicit-state model checking against a functional reference model", "DESIGN.md §4 C10"),
 "C13": (EX, "Exhaustive product of mint parameter sets x seeded previous emission x consecutive blocks through the real jklmint BeginBlocker on the real bank keeper; supply growth, monotonicity, non-negativity, per-account split and remainder checked per block; whole-app blocks at the ABCI seam.",
         "Value alphabets as listed in evidence; module seam for the split.", "exhaustive enumeration of parameter sets x block runs", "DESIGN.md §4 C13"),
 "C15": (MC, "BFS over init/shutdown by 3 accounts (one under-funded) x collateral-price changes; the reachable space under the alphabet saturates (complete), every transition checked against a reference of recorded collateral; conformance replay at the ABCI seam.",
         "3 registrants, price alphabet {p,2p,p/2}.", "explicit-state model checking to a fixpoint", "DESIGN.md §4 C15"),
 "C16": (EX, "Full product of names (length 1..6/8, both TLDs, case/space variants) x years x registrants, and of genesis-seeded names (long expired, expired a year ago, expiring in 3 blocks, live) x block offsets x owner/other; price from a frozen table, expiry and resolution checked; all cases also run through signed ABCI blocks.",
         "Price table frozen in the harness; height == Expires unspecified.", "exhaustive input enumeration on the real handlers", "DESIGN.md §4 C16"),
 "C18": (MC, "BFS over create/delete/block-senders/name-transfer/NextBlock among 3 accounts and a name; after every transition every inbox is read through the gRPC query and compared entry by entry with a reference inbox.",
         "Identity of a notification = (recipient, sender, time); 3 principals.", "explicit-state model checking against a reference model", "DESIGN.md §4 C18"),
 "C20": (EX, "Every segment sequence of length 1..4 (5 thorough) over 9 segments: MerklePath vs an independent fold, trailing-slash neutrality, parent/child derivation, pairwise-distinct addresses; 125 folder chains posted through the real handlers.",
         "SHA-256 collision freedom; unspecified boundary cases listed in DESIGN.md.", "exhaustive input enumeration", "DESIGN.md §4 C20"),
}

REASON_PENDING = "check under construction in this round (DESIGN.md §7 build order); will be claimed once its scenario is committed"

props = [json.loads(l) for l in open('/verif/properties.jsonl')]
m = {
 "version": 1,
 "setup_cmd": "./check build",
 "hooks": {
  "guard": "verif",
  "enable": "no source hooks are needed: the explorer imports /repo as a Go module (replace => /repo, regenerated go.mod) and uses exported keepers, the message router and BeginBlocker/EndBlocker; C06 instruments map ranges/clock/RNG through a generated go build -overlay that leaves /repo untouched",
  "baseline_off_cmd": "cd /repo && GOFLAGS=-mod=mod go test -vet=off -count=1 -timeout 25m ./...",
  "source_commits": [],
  "add_only": True,
 },
 "engines": [
  {"name": "mc-explorer", "path": "harness/mc/explorer.go", "serves_properties": sorted(k for k, v in CHECKS.items() if v[0] == MC),
   "kind_free_text": "explicit-state breadth-first search over event histories; transitions run the real handlers on CacheContext branches of a real JackalApp; canonical key = hash of full store contents + header + reference model"},
  {"name": "abci-replayer", "path": "harness/world/env.go", "serves_properties": sorted(CHECKS),
   "kind_free_text": "replays search paths / enumerated cases through signed transactions and real BeginBlock/DeliverTx/EndBlock/Commit on a fresh node: conformance check and reproduction gate for every violation"},
  {"name": "enumerator", "path": "harness/mc/enum.go", "serves_properties": sorted(k for k, v in CHECKS.items() if v[0] == EX) + ["C03"],
   "kind_free_text": "exhaustive enumeration of finite input/schedule/configuration products on worker-local nodes"},
 ],
 "checks": [],
 "not_applicable": [],
 "notes": "Exit codes: 0 held (KNOWN-FINDING lines allowed), 1 VIOLATION, 2 harness error. known_findings.json lists fixed/known findings.",
}
for p in props:
    i = p["id"]
    if i in CHECKS:
        lvl, text, note, tech, ref = CHECKS[i]
        m["checks"].append({
            "property_id": i, "quick_cmd": "./check %s quick" % i, "thorough_cmd": "./check %s thorough" % i,
            "evidence_file": "/verif/evidence/%s.json" % i, "replay_cmd_template": "./check replay {path}",
            "engine": "mc-explorer" if lvl == MC else "enumerator",
            "level_claimed": {"category": lvl, "text": text, "design_ref": ref}, "level_note": note, "technique": tech})
    else:
        m["not_applicable"].append({"property_id": i, "reason": REASON_PENDING})
json.dump(m, open('/verif/MANIFEST.json', 'w'), indent=1)
print("checks:", len(m["checks"]), "pending:", len(m["not_applicable"]))
