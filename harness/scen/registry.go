package scen

import (
	"os"
	"runtime"
	"strconv"
	"time"

	"verif/harness/mc"
)

type Prop struct {
	Level string
	Run   func(r *mc.Run, tier string)
}

var Props = map[string]Prop{}
var Scenarios = map[string]mc.Scenario{}

// CaseReplayers re-run one enumerated case (exploration-style checks) from its recorded description.
var CaseReplayers = map[string]func(r *mc.Run, c string){}

func regScenario(s mc.Scenario) { Scenarios[s.Name()] = s }

func workers() int {
	if v, err := strconv.Atoi(os.Getenv("VERIF_WORKERS")); err == nil && v > 0 {
		return v
	}
	n := runtime.NumCPU()
	if n > 16 {
		n = 16
	}
	return n
}

// opts builds explorer options for a tier: depth bound and internal deadline (seconds).
func opts(tier string, qDepth, tDepth int, qSecs, tSecs int, qConf, tConf int) mc.Options {
	o := mc.Options{Workers: workers()}
	if tier == "thorough" {
		o.MaxDepth, o.ConfTraces = tDepth, tConf
		o.Deadline = time.Now().Add(time.Duration(tSecs) * time.Second)
	} else {
		o.MaxDepth, o.ConfTraces = qDepth, qConf
		o.Deadline = time.Now().Add(time.Duration(qSecs) * time.Second)
	}
	if v, err := strconv.Atoi(os.Getenv("VERIF_DEPTH")); err == nil && v > 0 {
		o.MaxDepth = v
	}
	return o
}

func init() {
	regScenario(C15{})
	regScenario(C15{Seeded: true})
	regScenario(C15{Legacy: true})
	Props["C15"] = Prop{Level: "model_checking", Run: func(r *mc.Run, tier string) {
		r.Rules = append(r.Rules, "BFS over Init/Shutdown by 3 accounts (one under-funded) x collateral-price changes x NextBlock; a state is distinct by the full storage+bank stores, header and model; non-trivial = first reached by an accepted state-changing event")
		r.Assumptions = append(r.Assumptions, "price alphabet {p, 2p, p/2}; 3 registrants", "seam A omits fees/signatures (zero-fee signed replay at seam B validates)")
		r.AddExplore(C15{}, opts(tier, 6, 14, 60, 900, 150, 2000))
		r.Rules = append(r.Rules, "volume: 99, 100, 101 and 130 providers registered at once (one page of a paginated store walk holds 100): escrow = sum and count of the collateral listing, also after a restart of the module from its exported genesis, then every provider shuts down and gets its collateral back")
		r.AddEnum(c15VolumeEnum(), workers(), time.Time{})
		r.Rules = append(r.Rules, "lapsing-provider variant: provider A starts registered and listed on three files it never proves again (proof window 2, reward blocks every 2nd block); BFS over up to 6 one-day blocks, init/shutdown by A and B and a price change")
		r.AddExplore(C15{Seeded: true}, opts(tier, 10, 12, 30, 300, 40, 300))
		r.Rules = append(r.Rules, "legacy-provider variant: the genesis state holds a provider without a collateral record (registered before collateral existed); BFS over init/shutdown by it and two others and a price change: its shutdown returns nothing, removes it, and lets it register again")
		r.AddExplore(C15{Legacy: true}, opts(tier, 8, 10, 30, 300, 40, 300))
	}}
}
