// Package mc is the explicit-state explorer: breadth-first, level-synchronous search over event histories of a
// Scenario whose transitions execute the real handlers on a branched context (seam A), with canonical-key
// deduplication, conformance replay and violation reproduction through the real ABCI pipeline (seam B).
package mc

import (
	"crypto/sha256"
	"fmt"
	"runtime/debug"
	"sort"
	"strings"
	"sync"
	"sync/atomic"
	"time"

	"verif/harness/world"
)

// Viol is one oracle failure on one transition.
type Viol struct {
	Clause string // oracle clause id (a sentence of the property statement)
	Sig    string // signature: clause + the structural facts that make it fail (see DESIGN.md §2.5)
	Detail string // observed vs expected, human readable
	Sub    string // enumerations: the inner evaluation of a grouped case that produced it
	// ExtraPath: events to append to the history for replay (used when the oracle looked ahead on a fork: the
	// replayed history then contains the look-ahead steps as explicit events, the last of which shows the violation)
	ExtraPath []string
}

// Step is the outcome of applying one event.
type Step struct {
	Model     Model
	Viols     []Viol
	Outcome   string   // "ok" (accepted and state changed or response positive), "rejected", "noop", "block", ...
	Exercised []string // oracle clauses whose antecedent was true on this transition
}

// Model is the scenario's reference model value carried along a history. It must be immutable once returned.
type Model interface {
	Key() []byte // canonical serialisation (part of the state key)
}

// Scenario binds an alphabet, a reference model and oracle clauses to the real implementation.
type Scenario interface {
	ID() string   // property id
	Name() string // scenario name, unique
	Config() world.Config
	Stores() []string // store names whose full KV content is part of the canonical state key
	Init(env world.Env) Model
	Events(env world.Env, m Model) []string
	Apply(env world.Env, m Model, ev string) Step
}

type node struct {
	parent *node
	ev     string
	depth  int
}

func (n *node) path() []string {
	out := make([]string, n.depth)
	for x := n; x != nil && x.depth > 0; x = x.parent {
		out[x.depth-1] = x.ev
	}
	return out
}

type Options struct {
	MaxDepth   int
	Deadline   time.Time
	Workers    int
	MaxStates  int // safety cap
	ConfTraces int // number of search-tree paths replayed at seam B (conformance)
	Quiet      bool
}

type Found struct {
	Viol      Viol
	Path      []string
	Count     int
	Confirmed bool // reproduced at seam B
	ReproNote string
	Alts      [][]string // further paths that showed the same signature (tried in turn if Path does not reproduce)
}

const maxAlts = 600

type Result struct {
	Scenario       string
	States         int
	Transitions    int
	Nontrivial     int // distinct states first reached by an accepted, state-changing event
	DepthCompleted int
	Exhaustive     bool // all levels up to MaxDepth completed (or the space saturated)
	Saturated      bool // frontier became empty: the whole reachable space under the alphabet was covered
	CapHit         string
	PerLevel       []int
	Outcomes       map[string]map[string]int // event kind -> outcome -> count
	Exercised      map[string]int
	Found          map[string]*Found // by signature
	Samples        [][]string
	ConfValidated  int
	ConfMismatch   []string
	HarnessErrors  []string
	Wall           float64
}

type cand struct {
	key    [16]byte
	parent int32
	evIdx  int32
	ev     string
	okChg  bool
}

type workerOut struct {
	cands       []cand
	transitions int
	outcomes    map[string]map[string]int
	exercised   map[string]int
	found       map[string]*Found
	herr        []string
}

func kindOf(ev string) string {
	if i := strings.IndexByte(ev, ':'); i >= 0 {
		return ev[:i]
	}
	return ev
}

// StateKey is the canonical key of (stores, header, model).
func StateKey(env world.Env, sc Scenario, m Model) [16]byte {
	var mk []byte
	if m != nil {
		mk = m.Key()
	}
	h := env.W().HashStores(env.Ctx(), sc.Stores(), mk)
	var k [16]byte
	copy(k[:], h[:16])
	return k
}

type wstate struct {
	w    *world.World
	base *world.EnvA
	m0   Model
}

func newWState(sc Scenario) *wstate {
	w := world.New(sc.Config())
	env := w.NewEnvA()
	m0 := sc.Init(env)
	return &wstate{w: w, base: env, m0: m0}
}

// rebuild replays a path on a fresh fork.
func (ws *wstate) rebuild(sc Scenario, path []string) (*world.EnvA, Model) {
	env := ws.base.Fork()
	m := ws.m0
	for _, ev := range path {
		st := sc.Apply(env, m, ev)
		m = st.Model
	}
	return env, m
}

// Explore runs the breadth-first search.
func Explore(sc Scenario, opt Options) *Result {
	t0 := time.Now()
	if opt.Workers <= 0 {
		opt.Workers = 1
	}
	if opt.MaxStates <= 0 {
		opt.MaxStates = 20_000_000
	}
	res := &Result{Scenario: sc.Name(), Outcomes: map[string]map[string]int{}, Exercised: map[string]int{}, Found: map[string]*Found{}}

	// worker-local worlds
	wss := make([]*wstate, opt.Workers)
	var wg sync.WaitGroup
	for i := range wss {
		wg.Add(1)
		go func(i int) { defer wg.Done(); wss[i] = newWState(sc) }(i)
	}
	wg.Wait()

	seen := map[[16]byte]struct{}{}
	root := &node{}
	rootKey := StateKey(wss[0].base, sc, wss[0].m0)
	seen[rootKey] = struct{}{}
	res.States = 1
	frontier := []*node{root}
	res.PerLevel = append(res.PerLevel, 1)
	res.Exhaustive = true

	for depth := 1; depth <= opt.MaxDepth && len(frontier) > 0; depth++ {
		outs := make([]*workerOut, opt.Workers)
		var next int64 = -1
		var timedOut int32
		for wi := 0; wi < opt.Workers; wi++ {
			wg.Add(1)
			go func(wi int) {
				defer wg.Done()
				out := &workerOut{outcomes: map[string]map[string]int{}, exercised: map[string]int{}, found: map[string]*Found{}}
				outs[wi] = out
				ws := wss[wi]
				for {
					if !opt.Deadline.IsZero() && time.Now().After(opt.Deadline) {
						atomic.StoreInt32(&timedOut, 1)
						return
					}
					i := atomic.AddInt64(&next, 1)
					if int(i) >= len(frontier) {
						return
					}
					expandNode(sc, ws, frontier[i], int32(i), out)
				}
			}(wi)
		}
		wg.Wait()
		// merge deterministically
		var all []cand
		for _, o := range outs {
			all = append(all, o.cands...)
			res.Transitions += o.transitions
			for k, m := range o.outcomes {
				if res.Outcomes[k] == nil {
					res.Outcomes[k] = map[string]int{}
				}
				for oc, n := range m {
					res.Outcomes[k][oc] += n
				}
			}
			for k, n := range o.exercised {
				res.Exercised[k] += n
			}
			res.HarnessErrors = append(res.HarnessErrors, o.herr...)
			for sig, f := range o.found {
				if g, ok := res.Found[sig]; ok {
					g.Count += f.Count
					g.Alts = append(g.Alts, f.Alts...)
					if len(g.Alts) > 16*maxAlts {
						g.Alts = g.Alts[:16*maxAlts]
					}
					if len(f.Path) < len(g.Path) || (len(f.Path) == len(g.Path) && strings.Join(f.Path, "|") < strings.Join(g.Path, "|")) {
						g.Alts = append(g.Alts, g.Path)
						g.Path, g.Viol = f.Path, f.Viol
					} else {
						g.Alts = append(g.Alts, f.Path)
					}
				} else {
					res.Found[sig] = f
				}
			}
		}
		sort.Slice(all, func(a, b int) bool {
			if all[a].parent != all[b].parent {
				return all[a].parent < all[b].parent
			}
			return all[a].evIdx < all[b].evIdx
		})
		var nf []*node
		for _, c := range all {
			if _, ok := seen[c.key]; ok {
				continue
			}
			seen[c.key] = struct{}{}
			nf = append(nf, &node{parent: frontier[c.parent], ev: c.ev, depth: depth})
			if c.okChg {
				res.Nontrivial++
			}
		}
		res.States += len(nf)
		if timedOut != 0 {
			res.Exhaustive = false
			res.CapHit = fmt.Sprintf("deadline during depth %d", depth)
			// the partial level's new states are counted but the level is not complete
			frontier = nf
			break
		}
		res.DepthCompleted = depth
		res.PerLevel = append(res.PerLevel, len(nf))
		// samples: a few deepest paths
		if len(nf) > 0 {
			res.Samples = nil
			for i := 0; i < len(nf) && len(res.Samples) < 3; i += 1 + len(nf)/3 {
				res.Samples = append(res.Samples, nf[i].path())
			}
		}
		frontier = nf
		if len(seen) > opt.MaxStates {
			res.Exhaustive = false
			res.CapHit = fmt.Sprintf("state cap %d after depth %d", opt.MaxStates, depth)
			break
		}
		if len(frontier) == 0 {
			res.Saturated = true
		}
	}
	if len(res.Samples) == 0 {
		res.Samples = [][]string{{}}
	}
	res.Wall = time.Since(t0).Seconds()
	_ = sha256.New
	return res
}

func expandNode(sc Scenario, ws *wstate, n *node, idx int32, out *workerOut) {
	defer func() {
		if r := recover(); r != nil {
			out.herr = append(out.herr, fmt.Sprintf("panic in harness while expanding %v: %v\n%s", n.path(), r, debug.Stack()))
		}
	}()
	path := n.path()
	env, m := ws.rebuild(sc, path)
	pkey := StateKey(env, sc, m)
	evs := sc.Events(env, m)
	for ei, ev := range evs {
		c := env.Fork()
		st := sc.Apply(c, m, ev)
		out.transitions++
		k := kindOf(ev)
		if out.outcomes[k] == nil {
			out.outcomes[k] = map[string]int{}
		}
		out.outcomes[k][st.Outcome]++
		for _, x := range st.Exercised {
			out.exercised[x]++
		}
		key := StateKey(c, sc, st.Model)
		for _, v := range st.Viols {
			f, ok := out.found[v.Sig]
			if !ok {
				out.found[v.Sig] = &Found{Viol: v, Path: append(append(append([]string{}, path...), ev), v.ExtraPath...), Count: 1}
			} else {
				f.Count++
				if len(f.Alts) < maxAlts {
					f.Alts = append(f.Alts, append(append(append([]string{}, path...), ev), v.ExtraPath...))
				}
			}
		}
		out.cands = append(out.cands, cand{key: key, parent: idx, evIdx: int32(ei), ev: ev, okChg: st.Outcome == "ok" && key != pkey})
	}
}

// ReplayA replays a path at seam A on a fresh world and returns all violations of the last step and the final key.
func ReplayA(sc Scenario, path []string) (last Step, key [16]byte, env *world.EnvA) {
	ws := newWState(sc)
	e := ws.base.Fork()
	m := ws.m0
	for _, ev := range path {
		last = sc.Apply(e, m, ev)
		m = last.Model
	}
	return last, StateKey(e, sc, m), e
}

// ReplayB replays a path at seam B (signed transactions, real blocks) on a fresh node.
func ReplayB(sc Scenario, path []string) (last Step, env *world.EnvB, m Model, err error) {
	defer func() {
		if r := recover(); r != nil {
			err = fmt.Errorf("panic during seam-B replay: %v\n%s", r, debug.Stack())
		}
	}()
	w := world.New(sc.Config())
	e := w.NewEnvB()
	m = sc.Init(e)
	for _, ev := range path {
		last = sc.Apply(e, m, ev)
		m = last.Model
	}
	return last, e, m, nil
}
